"""C10: the update half of the position model (reads live in vlib.values).

Written from docs/corelang.dj §Update assignment and docs/advanced.dj §Pathless (prose and the
iter_upd / index_upd / slice_upd definitions), never from the Rust sources.

An update filter is modelled as a Python function `f(x) -> list of outputs` (may raise
JqError). Every function returns `(value, deleting)`; `deleting` says that an object entry was
removed (the manual leaves the order of the remaining keys open in that case)."""
from . import values as V
from .codec import Obj, Str


def upd_iter(v, f):
    """.[] |= f : arrays take every output, objects the first output per value (none = delete)"""
    if isinstance(v, list):
        out = []
        for x in v:
            out.extend(f(x))
        return out, False
    if isinstance(v, Obj):
        items = []
        deleting = False
        for k, x in v.items:
            ys = f(x)
            if ys:
                items.append((k, ys[0]))
            else:
                deleting = True
        return Obj(items), deleting
    raise V.JqError()


def slice_bounds(v, a, b):
    """(units, lo, hi) of .[a:b] on an array / string; bounds null or integer, else JqError"""
    if not isinstance(v, (list, Str)):
        raise V.JqError()
    units = V.seq_of(v)
    n = len(units)
    lo = V.clip_bound(a, n, 0)
    hi = V.clip_bound(b, n, n)
    return units, lo, hi


def same_seq_kind(v, y):
    if isinstance(v, list):
        return isinstance(y, list)
    return isinstance(y, Str) and y.text == v.text


def upd_slice(v, a, b, f):
    """.[a:b] |= f : splice the first output (none = delete the slice) over the positions the
    slice reads. Returns a LIST of acceptable results: when the slice is empty because hi < lo the
    property does not say where between the two bounds the replacement goes."""
    units, lo, hi = slice_bounds(v, a, b)
    x = V.seq_back(v, units[lo:hi] if hi > lo else [])
    ys = f(x)
    if ys:
        y = ys[0]
        if y is None:
            raise V.Unspecified("null as output of a slice update")
        if not same_seq_kind(v, y):
            raise V.JqError()
        repl = V.seq_of(y)
    else:
        repl = []
    if hi >= lo:
        return [V.seq_back(v, units[:lo] + repl + units[hi:])]
    return [V.seq_back(v, units[:p] + repl + units[p:]) for p in range(lo, hi - 1, -1)]


def upd_index(v, i, f):
    """.[i] |= f"""
    if isinstance(v, (list, Str)) and isinstance(i, Obj):
        a, b = V._start_end(i)
        return upd_slice(v, a, b, f), False
    if isinstance(v, list):
        if not V.is_int(i):
            raise V.JqError()
        j = V.ival(i)
        n = len(v)
        if j < 0:
            j += n
        if not 0 <= j < n:
            raise V.JqError()
        ys = f(v[j])
        if ys:
            return [v[:j] + [ys[0]] + v[j + 1:]], False
        return [v[:j] + v[j + 1:]], False
    if isinstance(v, Obj):
        cur = V.obj_get(v, i)
        if cur is V.MISSING:
            ys = f(None)
            if ys:
                return [Obj(list(v.items) + [(i, ys[0])])], False
            return [v], False
        ys = f(cur)
        if ys:
            return [V.obj_set(v, i, ys[0])], False
        return [Obj([(k, x) for k, x in v.items if not V.eq(k, i)])], True
    raise V.JqError()


def idx_class(i, n):
    """class of a position relative to a container of n units (for the distinct-case count)"""
    if i is None:
        return "null"
    if not V.is_int(i):
        return "wrong:" + V.kind(i) + (":float" if isinstance(i, float) else "")
    j = V.ival(i)
    big = "B" if not (-(2 ** 63) <= j < 2 ** 63) or type(i).__name__ == "Big" else ""
    if abs(j) > 2 ** 64:
        return "huge" + ("-" if j < 0 else "+")
    if abs(j) >= 2 ** 62:
        return big + "edge63" + ("-" if j < 0 else "+")
    if j >= 0:
        c = "in" if j < n else ("len" if j == n else "out")
        return big + ("zero" if j == 0 else "pos") + "-" + c
    c = "in" if -j < n else ("start" if -j == n else "out")
    return big + "neg-" + c
