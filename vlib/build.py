"""Building the instrumented helper (jaqmon) and the jaq CLI from /repo's *current working tree*.

Every check calls these on start-up; cargo makes it a no-op when nothing changed.
All output lives in /verif/.target (git-ignored)."""
import fcntl
import hashlib
import os
import shutil
import subprocess
import sys

VERIF = os.path.dirname(os.path.dirname(os.path.abspath(__file__)))
REPO = os.environ.get("VERIF_REPO", "/repo")
TARGET = os.path.join(VERIF, ".target")
HARNESS = os.path.join(VERIF, "harness")
GUARD = "jaq_verif"


def _env(extra_rustflags=""):
    env = dict(os.environ)
    env["CARGO_NET_OFFLINE"] = "true"
    env["CARGO_TARGET_DIR"] = TARGET
    flags = f"--cfg {GUARD}"
    if extra_rustflags:
        flags += " " + extra_rustflags
    env["RUSTFLAGS"] = flags
    env.pop("RUSTC_WRAPPER", None)
    return env


def _lock():
    """Exclusive build lock. A POSIX record lock (lockf) belongs to the *process*: a child
    forked while the lock is held does not keep it alive (a BSD flock would be shared through
    the inherited descriptor and could dead-lock a worker pool against its own parent)."""
    os.makedirs(TARGET, exist_ok=True)
    f = open(os.path.join(TARGET, ".verif-build.lock"), "w")
    fcntl.lockf(f, fcntl.LOCK_EX)
    return f


def _sync_lockfile():
    """Derive harness/Cargo.lock (git-ignored) from /repo/Cargo.lock, so that the helper is
    built against exactly the dependency versions of the tree under test; cargo adds the
    helper's own entries offline."""
    src = os.path.join(REPO, "Cargo.lock")
    stamp = os.path.join(TARGET, ".repo-lock.sha")
    dst = os.path.join(HARNESS, "Cargo.lock")
    h = hashlib.sha256(open(src, "rb").read()).hexdigest()
    old = open(stamp).read().strip() if os.path.exists(stamp) else None
    if old != h or not os.path.exists(dst):
        shutil.copyfile(src, dst)
        open(stamp, "w").write(h)


def _run(cmd, env, cwd, what):
    p = subprocess.run(cmd, env=env, cwd=cwd, stdout=subprocess.PIPE, stderr=subprocess.STDOUT, text=True)
    if p.returncode != 0:
        sys.stderr.write(p.stdout[-8000:])
        raise SystemExit(f"BUILD FAILED ({what}); this is a broken check run, not a verdict")
    return p.stdout


def jaqmon(profile="verif", features=()):
    """Build and return the path of jaqmon in the given profile ('verif' = release +
    debug-assertions + overflow-checks, 'release' = what users run)."""
    lock = _lock()
    try:
        _sync_lockfile()
        cmd = ["cargo", "build", "--offline", "--profile", profile, "-q"]
        tdir = profile
        env = _env()
        if features:
            cmd += ["--features", ",".join(features)]
            # separate target dir per feature set, so alternating builds stay incremental
            env["CARGO_TARGET_DIR"] = os.path.join(TARGET, "feat-" + "-".join(features))
        _run(cmd, env, HARNESS, "jaqmon " + profile)
        return os.path.join(env["CARGO_TARGET_DIR"], tdir, "jaqmon")
    finally:
        lock.close()


def cli(opt=True):
    """Build the real `jaq` binary from /repo (dev profile: debug assertions and overflow
    checks on; opt-level 1 for speed). Returns its path."""
    lock = _lock()
    try:
        env = _env()
        env["CARGO_TARGET_DIR"] = os.path.join(TARGET, "cli")
        cmd = ["cargo", "build", "--offline", "-q", "-p", "jaq", "--manifest-path", os.path.join(REPO, "Cargo.toml")]
        if opt:
            cmd += ["--config", "profile.dev.opt-level=1", "--config", "profile.dev.debug=false"]
        _run(cmd, env, REPO, "jaq cli")
        return os.path.join(env["CARGO_TARGET_DIR"], "debug", "jaq")
    finally:
        lock.close()


def cli_release():
    """The jaq binary as users get it (release profile of the repository, but without the
    slow codegen-units=1; overflow wraps silently, debug assertions off)."""
    lock = _lock()
    try:
        env = _env()
        env["CARGO_TARGET_DIR"] = os.path.join(TARGET, "cli")
        cmd = ["cargo", "build", "--offline", "-q", "-p", "jaq", "--release", "--manifest-path",
               os.path.join(REPO, "Cargo.toml"), "--config", "profile.release.codegen-units=16",
               "--config", "profile.release.strip=false"]
        _run(cmd, env, REPO, "jaq cli release")
        return os.path.join(env["CARGO_TARGET_DIR"], "release", "jaq")
    finally:
        lock.close()


if __name__ == "__main__":
    what = sys.argv[1:] or ["jaqmon", "cli"]
    if "jaqmon" in what:
        print(jaqmon("verif"))
    if "release" in what:
        print(jaqmon("release"))
    if "cli" in what:
        print(cli())
    if "cli_release" in what:
        print(cli_release())
