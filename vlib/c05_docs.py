"""C05 workload 3: documents per format. Seeds (bytes) + mutation operators."""
import glob
import os
import re
import struct

from . import c05_pool as P

FORMATS = ["json", "yaml", "cbor", "toml", "xml", "csv", "tsv", "raw", "raw0"]

YAML_DOCS = [
    "a: 1\nb:\n  - x\n  - y: [1, 2, {z: null}]\nc: &anc\n  k: v\nd: *anc\ne: !!str 1\nf: |\n  line1\n  line2\ng: >-\n  folded\n  text\n",
    "---\n- &a [1, 2]\n- *a\n- {<<: {x: 1}, y: 2}\n...\n---\n!!binary |\n  YWJj\n---\n? [complex, key]\n: value\n",
    "%YAML 1.2\n%TAG !e! tag:example.com,2000:\n---\n!e!foo \"bar\\x41\\u00e9\\n\"\n",
    "- 0x1F\n- 0o17\n- 1_000\n- .inf\n- -.INF\n- .NaN\n- 1e3\n- +1\n- ~\n- Null\n- TRUE\n- 'single ''quoted'''\n- \"dq \\\" \\\\ \\/ \\0 \\a \\b \\e \\N \\_ \\L \\P\"\n",
    "{a: [1, {b: 2}], \"c\": 'd', ? e : f, g}\n", "base: &b {x: 1}\nd1: {<<: *b, y: 2}\nd2: {<<: [*b, {z: 3}]}\n",
    "&x a: &y b\n*x : *y\n", "!!set {a, b}\n", "!!omap [a: 1, b: 2]\n", "- !!int \"12\"\n- !!float \"1.5\"\n- !!bool \"true\"\n- !!null \"\"\n- !!str 12\n",
    "k: |2+\n    indented\n\n\n", "k: >1-\n  a\n   b\n\n  c\n", "key with spaces: value # comment\n\"quoted key\": [a, b]\n",
    "- - - - - deep\n", "a:\n  b:\n    c:\n      d:\n        e: 1\n", "123: int key\n1.5: float key\ntrue: bool key\nnull: null key\n[1]: seq key\n{a: 1}: map key\n",
]
TOML_DOCS = [
    "title = \"TOML\"\n[owner]\nname = \"Tom\"\ndob = 1979-05-27T07:32:00-08:00\n[database]\nenabled = true\nports = [ 8000, 8001 ]\ndata = [ [\"a\", \"b\"], [1, 2] ]\ntemp = { cpu = 79.5, case = 72.0 }\n[servers.alpha]\nip = \"10.0.0.1\"\n[[products]]\nname = \"x\"\n[[products]]\n[[products.sub]]\nk = 1\n",
    "a = 1\nb = -1\nc = +1\nd = 0x1F\ne = 0o17\nf = 0b11\ng = 1_000\nh = 1.5\ni = 1e3\nj = inf\nk = -inf\nl = nan\nm = 9223372036854775807\nn = -9223372036854775808\n",
    "s1 = \"basic \\\" \\\\ \\b \\t \\n \\f \\r \\u00e9 \\U0001D11E\"\ns2 = 'literal \\n'\ns3 = \"\"\"\nmulti\\\n   line\"\"\"\ns4 = '''\nlit\nmulti'''\n",
    "d1 = 1979-05-27T07:32:00Z\nd2 = 1979-05-27T00:32:00.999999-07:00\nd3 = 1979-05-27 07:32:00\nd4 = 1979-05-27T07:32:00\nd5 = 1979-05-27\nd6 = 07:32:00\nd7 = 00:32:00.999999\n",
    "a.b.c = 1\n\"a.b\".c = 2\n'' = 3\n\"\" = 4\n1 = 5\n1.2 = 6\n", "a = {b = 1, c = {d = nan, e = [], f = [{g = inf}, {h = -inf}]}}\n", "[a]\n[a.b]\n[a.b.c]\nx = [[[[[1]]]]]\n",
    "# comment\nk = \"v\" # trailing\n\n[t] # c\n", "arr = [\n  1,\n  2, # c\n]\n", "[[a]]\n[[a.b]]\n[[a.b.c]]\nx = 1\n[[a]]\n",
]
XML_DOCS = [
    "<?xml version=\"1.0\" encoding=\"UTF-8\" standalone=\"no\"?>\n<!DOCTYPE html PUBLIC \"-//W3C//DTD XHTML 1.0 Strict//EN\" \"http://www.w3.org/TR/xhtml1/DTD/xhtml1-strict.dtd\">\n<html xmlns=\"http://www.w3.org/1999/xhtml\" xml:lang=\"en\"><head><title>T</title></head><body><p class=\"a\" id='b'>Hello <em>World</em>&amp;<br/></p><!-- c --><?php echo 1; ?><![CDATA[ <raw> ]]></body></html>\n",
    "<a href=\"https://www.w3.org\">World Wide Web Consortium (<em>W3C</em>)</a>", "<!DOCTYPE a [<!ENTITY e 'x'><!ELEMENT a ANY><!ATTLIST a b CDATA #IMPLIED><!-- c --><?pi x?>]><a b=\"&e;\">&e;&#65;&#x41;</a>",
    "<ns:a xmlns:ns=\"u\" ns:b=\"1\"><ns:c/></ns:a>", "<a><b><c><d><e>deep</e></d></c></b></a>", "<a>t1<b/>t2<c/>t3</a>", "<?xml version='1.1'?><a/><!-- after --><?pi?>",
    "<!DOCTYPE a SYSTEM \"a.dtd\"><a/>", "<!DOCTYPE a PUBLIC \"p\" \"s\" [ <!ENTITY % pe \"x\"> %pe; ]><a/>", "<a b=\"1\" c=\"2\" d=\"&lt;&gt;&quot;&apos;&amp;\"/>",
]
CSV_DOCS = ["name,age,city\nAlice,30,\"New York\"\n\"Bob \"\"B\"\"\",25,\"Line\nBreak\"\n,,\n1,1.5,-1e3\n", "a,b\r\n1,2\r\n\"x\r\ny\",z\r\n", "\"a\",\"b\"\n\"\",\"\"\n"]
TSV_DOCS = ["name\tage\tcity\nAlice\t30\tNew York\nBob\\tB\t25\tLine\\nBreak\\\\\n\t\t\n1\t1.5\t-1e3\n", "a\tb\r\n1\t2\r\n", "\\t\\n\\r\\\\\\0\\x\n"]
JSON_DOCS = ["{\"a\": [1, 2.5, -3e10, true, false, null, \"s\\n\\u00e9\\ud83d\\ude00\"], \"b\": {\"c\": {}}, \"d\": []}\n[1] [2]\n3 \"x\"",
             "NaN b\"Bytes\\xff\" {1: 2, [1]: 3, null: 4} Infinity -Infinity # Over and out\n", "[1,[2,[3,[4,[5,[6,[7]]]]]]]", "{\"a\":{\"b\":{\"c\":{\"d\":{\"e\":1}}}}}",
             "1.0 1.10 1e1000 -0.0 100000000000000000000 -9223372036854775808 0.1e-400", "\"\\u0000\\u001f\\u007f\\ud7ff\\ue000\\uffff\"", " \t\r\n1\n\n2\r\n"]


def cbor_hand():
    h = bytes.fromhex
    docs = [h("00"), h("1818"), h("1903e8"), h("1a000f4240"), h("1b000000e8d4a51000"), h("1bffffffffffffffff"), h("c249010000000000000000"),
            h("3bffffffffffffffff"), h("c349010000000000000000"), h("20"), h("3903e7"), h("f90000"), h("f98000"), h("f93c00"), h("fb3ff199999999999a"),
            h("f97bff"), h("fa47c35000"), h("fa7f7fffff"), h("fb7e37e43c8800759c"), h("f90001"), h("f90400"), h("f9c400"), h("fbc010666666666666"),
            h("f97c00"), h("f97e00"), h("f9fc00"), h("fa7f800000"), h("fa7fc00000"), h("faff800000"), h("fb7ff0000000000000"), h("fb7ff8000000000000"),
            h("fbfff0000000000000"), h("f4"), h("f5"), h("f6"), h("f7"), h("f0"), h("f818"), h("f8ff"), h("c074323031332d30332d32315432303a30343a30305a"),
            h("c11a514b67b0"), h("c1fb41d452d9ec200000"), h("d74401020304"), h("d818456449455446"), h("d82076687474703a2f2f7777772e6578616d706c652e636f6d"),
            h("40"), h("4401020304"), h("60"), h("6161"), h("6449455446"), h("62225c"), h("62c3bc"), h("63e6b0b4"), h("64f0908591"), h("80"), h("83010203"),
            h("8301820203820405"), h("98190102030405060708090a0b0c0d0e0f101112131415161718181819"), h("a0"), h("a201020304"), h("a26161016162820203"),
            h("826161a161626163"), h("a56161614161626142616361436164614461656145"), h("5f42010243030405ff"), h("7f657374726561646d696e67ff"), h("9fff"),
            h("9f018202039f0405ffff"), h("9f01820203820405ff"), h("83018202039f0405ff"), h("83019f0203ff820405"), h("bf61610161629f0203ffff"),
            h("826161bf61626163ff"), h("bf6346756ef563416d7421ff"), h("ff"), h("c2"), h("c240"), h("c2f6"), h("c25f4101ff"), h("c3c24101"), h("d9d9f700"),
            h("a1a1a1a1a1a100010203040506"), h("a2f6010000"), h("a1820102a10102"), h("bf00ff"), h("5f6161ff"), h("7f4161ff"), h("7f7f6161ffff"), h("1c"), h("1f"),
            h("3f"), h("5c"), h("7e"), h("9c"), h("bd"), h("dc"), h("fc"), h("fe"), h("62c328"), h("61ff"), h("7a00000001"), h("7bffffffffffffffff"),
            h("5bffffffffffffffff"), h("9bffffffffffffffff"), h("bbffffffffffffffff"), h("9b0000000100000000"), h("9a00100000"), h("ba00100000"),
            h("7b7fffffffffffffff61"), h("5b7fffffffffffffff00"), h("1b8000000000000000"), h("3b7fffffffffffffff"), h("3b8000000000000000"),
            h("c25bffffffffffffffff"), h("c2581f" + "ff" * 31), h("c35820" + "ff" * 32), h("0001021820f5f6"), h("a10000a10000")]
    docs.append(b"\x81" * 150 + b"\x00")
    docs.append(b"\x9f" * 150 + b"\xff" * 150)
    docs.append(b"\xa1\x00" * 100 + b"\x00")
    docs.append(b"\xc2" * 50 + b"\x41\x01")
    docs.append(b"\xd8\x18" * 50 + b"\x00")
    return docs


def repo_docs(repo):
    out = {f: [] for f in FORMATS}
    for f in sorted(glob.glob(os.path.join(repo, "examples", "*.xhtml"))):
        b = open(f, "rb").read()
        out["xml"].append(b if len(b) < 4000 else b[:3000])
        if b"0x" in b:
            for m in re.finditer(rb"0x((?:[0-9a-f]{2})+)", b):
                out["cbor"].append(bytes.fromhex(m.group(1).decode()))
    for f in sorted(glob.glob(os.path.join(repo, "examples", "*.csv"))):
        out["csv"].append(open(f, "rb").read())
    for f in sorted(glob.glob(os.path.join(repo, "examples", "*.tsv"))):
        out["tsv"].append(open(f, "rb").read())
    for f in sorted(glob.glob(os.path.join(repo, "examples", "*.json"))):
        out["json"].append(open(f, "rb").read()[:3000])
    try:
        s = open(os.path.join(repo, "docs", "formats.dj"), encoding="utf-8").read()
    except Exception:
        s = ""
    for m in re.finditer(r"\$ (?:echo|printf) ('[^']*'|\"[^\"]*\"|[^|]*?)\s*\\?\s*\n?\|\s*jaq([^\n]*)", s):
        text, opts = m.group(1), m.group(2)
        if text[:1] in "'\"":
            text = text[1:-1]
        text = text.replace("\\n", "\n").replace("\\t", "\t")
        fm = re.search(r"--from (\w+)", opts)
        fmt = fm.group(1) if fm else "json"
        if fmt in out:
            out[fmt].append(text.encode())
    for m in re.finditer(r"```+ *(xml|yaml|toml|json|csv|tsv)\n(.*?)```", s, re.S):
        out[m.group(1)].append(m.group(2).encode())
    return out


def hand_seeds(repo):
    enc = lambda xs: [x.encode("utf-8") if isinstance(x, str) else x for x in xs]
    seeds = {
        "json": enc(JSON_DOCS + P.JSON_TEXTS + P.NUM_TEXTS),
        "yaml": enc(YAML_DOCS + P.YAML_TEXTS + JSON_DOCS[:5]),
        "cbor": cbor_hand(),
        "toml": enc(TOML_DOCS + P.TOML_TEXTS),
        "xml": enc(XML_DOCS + P.XML_TEXTS),
        "csv": enc(CSV_DOCS + P.CSV_TEXTS),
        "tsv": enc(TSV_DOCS + P.CSV_TEXTS),
        "raw": enc(["", "a\nb\n", "a\r\nb", "\xff\n", "no newline", "\n\n\n", "a\x00b\x00"]) + list(P.INVALID_UTF8[:6]),
        "raw0": enc(["", "a\x00b\x00", "a\nb", "\x00\x00", "x"]) + list(P.INVALID_UTF8[:4]),
    }
    for f, docs in repo_docs(repo).items():
        seeds[f] += docs
    return seeds


INTERESTING = {
    "json": [b"\"", b"\\", b"\\u", b"\\ud800", b"[", b"]", b"{", b"}", b":", b",", b"b\"", b"\\x", b"NaN", b"Infinity", b"-", b"e", b"E+", b".", b"#", b"\xff", b"\x00", b"0", b"1e999",
             b"null", b"nul", b"tru", b"\xef\xbb\xbf", b"\xc3", b"\n", b"/*", b"'", b"99999999999999999999", b"\\u0000", b"\x7f", b"\x1f"],
    "yaml": [b"&a ", b"*a", b"*", b"&", b"!!", b"!!binary ", b"!!int ", b"!!float ", b"!!null ", b"!!bool ", b"!!str ", b"!!map ", b"!!seq ", b"!!set ", b"!<x> ", b"! ", b"<<: ", b"<<: *a\n", b"? ",
             b": ", b"- ", b"---\n", b"...\n", b"%YAML 1.2\n", b"%TAG ! x\n", b"|\n", b">\n", b"|9\n", b"|-\n", b"\t", b"  ", b"\n", b"[", b"]", b"{", b"}", b",", b"\"", b"'", b"\\x", b"\\u12", b"\\U0011",
             b"#", b"\xff", b"\x00", b"\xef\xbb\xbf", b"~", b".inf", b"0x", b"0o", b"_", b"@", b"`", b"\xc2\x85", b"\xe2\x80\xa8", b"!!binary ====", b"!!int 0x", b"&a *a", b"*a: ", b"\r"],
    "cbor": [bytes([x]) for x in (0x00, 0x17, 0x18, 0x19, 0x1a, 0x1b, 0x1c, 0x1f, 0x20, 0x3b, 0x40, 0x5b, 0x5f, 0x60, 0x7b, 0x7f, 0x80, 0x9b, 0x9f, 0xa0, 0xbb, 0xbf, 0xc0, 0xc2, 0xc3,
                                        0xd8, 0xdb, 0xe0, 0xf4, 0xf6, 0xf7, 0xf8, 0xf9, 0xfa, 0xfb, 0xfc, 0xff)] + [b"\xff" * 8, b"\x7f\xff\xff\xff\xff\xff\xff\xff", b"\x80\x00\x00\x00\x00\x00\x00\x00", b"\xc2\x40", b"\xc3\x5f"],
    "toml": [b"[", b"]", b"[[", b"]]", b"{", b"}", b"=", b".", b",", b"\"", b"'", b"\"\"\"", b"'''", b"\\", b"\\u", b"\\U0011", b"#", b"\n", b"\r", b"_", b"0x", b"0o", b"0b", b"inf", b"nan", b"+", b"-", b"e", b"T", b"Z", b":",
             b"1979-05-27", b"T07:32:00", b".999999999999", b"+24:00", b"99", b"\xff", b"\x00", b"\x7f", b"9223372036854775808", b"\xef\xbb\xbf", b"a.b", b"\"\".", b" = ", b"t = 1\n"],
    "xml": [b"<", b">", b"/>", b"</", b"<?", b"?>", b"<!", b"<!--", b"-->", b"<![CDATA[", b"]]>", b"<!DOCTYPE ", b"<!ENTITY ", b"<!ELEMENT ", b"<!ATTLIST ", b"[", b"]", b"]>", b"&", b";", b"&#", b"&#x", b"&a;", b"=", b"\"", b"'",
            b":", b" ", b"\n", b"\xff", b"\x00", b"\xef\xbb\xbf", b"<?xml ", b"version=", b"encoding=", b"standalone=", b"SYSTEM ", b"PUBLIC ", b"%", b"%a;", b"<a", b"</a>", b"xmlns", b"--", b"\xc3"],
    "csv": [b",", b"\"", b"\"\"", b"\n", b"\r", b"\r\n", b"\\", b"\t", b"\xff", b"\x00", b"\xef\xbb\xbf", b" ", b"1e999", b"-", b"nan"],
    "tsv": [b"\t", b"\\", b"\\t", b"\\n", b"\\\\", b"\\x", b"\\0", b"\n", b"\r", b"\r\n", b"\"", b"\xff", b"\x00", b"\xef\xbb\xbf", b" ", b"1e999"],
    "raw": [b"\n", b"\r", b"\x00", b"\xff", b"\xc3"], "raw0": [b"\n", b"\x00", b"\xff", b"\xc3"],
}
NEST = {
    "json": [(b"[", b"]"), (b"{\"a\":", b"}"), (b"[{\"a\":", b"}]"), (b"{1:", b"}"), (b"[", b""), (b"{\"a\":", b"")],
    "yaml": [(b"[", b"]"), (b"{a: ", b"}"), (b"- ", b""), (b"? ", b""), (b"a:\n ", b""), (b"[", b""), (b"{", b""), (b"!!seq ", b""), (b"&a ", b""), (b"- - ", b"")],
    "cbor": [(b"\x81", b""), (b"\x9f", b"\xff"), (b"\xa1\x00", b""), (b"\xbf\x00", b"\xff"), (b"\xc2", b""), (b"\xd8\x18", b""), (b"\x5f", b"\xff"), (b"\x7f", b"\xff")],
    "toml": [(b"a = [", b"]"), (b"a = {b = ", b"}"), (b"[", b"]"), (b"[[", b"]]")],
    "xml": [(b"<a>", b"</a>"), (b"<a>", b""), (b"<a b='", b"'/>"), (b"<!DOCTYPE a [", b"]>"), (b"<a><!--", b"--></a>")],
    "csv": [(b"\"", b"\""), (b",", b"")], "tsv": [(b"\\", b""), (b"\t", b"")], "raw": [(b"\n", b"")], "raw0": [(b"\x00", b"")],
}
DOC_OPS = ["bitflip", "byte-set", "trunc", "del", "dup", "ins-tok", "ins-tok", "splice", "nest", "length", "repeat", "none"]


def mutate_doc(rng, fmt, seeds):
    s = bytearray(seeds[rng.randrange(len(seeds))])
    op = rng.choice(DOC_OPS)
    n = len(s)
    if op == "bitflip" and n:
        for _ in range(rng.choice([1, 1, 2, 4])):
            k = rng.randrange(n)
            s[k] ^= 1 << rng.randrange(8)
    elif op == "byte-set" and n:
        for _ in range(rng.choice([1, 1, 3])):
            s[rng.randrange(n)] = rng.choice([0, 0xff, 0x7f, 0x80, 0x20, 0x22, 0x5c, 0x0a, rng.randrange(256)])
    elif op == "trunc":
        k = rng.randrange(n + 1)
        s = s[:k] if rng.random() < 0.8 else s[k:]
    elif op == "del" and n:
        k = rng.randrange(n)
        del s[k:k + rng.choice([1, 1, 2, 4, 8])]
    elif op == "dup" and n:
        k = rng.randrange(n)
        j = min(n, k + rng.choice([1, 2, 4, 16]))
        s[k:k] = s[k:j] * rng.choice([1, 2, 10])
    elif op == "ins-tok":
        for _ in range(rng.choice([1, 1, 2, 3])):
            k = rng.randrange(len(s) + 1)
            s[k:k] = rng.choice(INTERESTING[fmt])
    elif op == "splice":
        o = seeds[rng.randrange(len(seeds))]
        if o:
            a = rng.randrange(len(o))
            k = rng.randrange(n + 1)
            s[k:k + rng.randrange(0, 8)] = o[a:a + rng.randrange(1, 40)]
    elif op == "nest":
        o, c = rng.choice(NEST[fmt])
        d = rng.choice([2, 10, 50, 100, 200])
        if fmt == "toml" and o in (b"[", b"[["):
            body = b".".join([b"a"] * d)
            s = bytearray(o + body + c + b"\nx = 1\n")
        else:
            inner = bytes(s) if rng.random() < 0.5 and n < 200 else {"cbor": b"\x00", "xml": b"x", "toml": b"1"}.get(fmt, b"1")
            s = bytearray(o * d + inner + c * d)
    elif op == "length" and n:
        if fmt == "cbor":
            # rewrite the additional-information bits / following length bytes of a random header
            k = rng.randrange(n)
            major = s[k] & 0xe0
            ai = rng.choice([24, 25, 26, 27, 27, 31, 23, 0, 28])
            s[k] = major | ai
            if rng.random() < 0.7:
                ln = {24: 1, 25: 2, 26: 4, 27: 8}.get(ai, 0)
                val = rng.choice([0, 1, 0xff, 0x7fff, 0xffff, 0x7fffffff, 0xffffffff, 2 ** 63 - 1, 2 ** 63, 2 ** 64 - 1, n, n + 1, 1024, 1025, 4096, 4097])
                s[k + 1:k + 1] = (val % (1 << (8 * ln))).to_bytes(ln, "big") if ln else b""
        else:
            # numbers inside the text: replace a digit run by a boundary number
            runs = [m.span() for m in re.finditer(rb"[0-9]+", bytes(s))]
            if runs:
                a, b = rng.choice(runs)
                s[a:b] = rng.choice([b"0", b"00", b"9223372036854775807", b"9223372036854775808", b"18446744073709551616", b"99999999999999999999999", b"1e999", b"-1", b"4294967296",
                                     b"2147483648", b"65536", b"256", b"1.5", b"0x10", b""])
    elif op == "repeat" and n:
        k = rng.randrange(n)
        j = min(n, k + rng.choice([1, 2, 5]))
        s[k:j] = s[k:j] * rng.choice([3, 50, 200])
    return op, bytes(s[:20000])
