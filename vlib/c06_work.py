"""C06 workload: attacker-chosen argument values, adversarial documents per decoder, and the
programs built from the natives / definitions of the current tree."""
import hashlib
import json
import os
import random
import re

from .codec import Obj, S, Str, enc

EXCLUDED = {"repl"}          # documented exception (interactive); also not present in jaqmon


def danger_strings(scr):
    can = os.path.join(scr, "canary", "secret.txt")
    return [
        ("abs-path", "/etc/passwd"),
        ("file-url", "file:///etc/passwd"),
        ("http-url", "http://127.0.0.1:9/"),
        ("cmd-subst", "$(touch %s/cwd/pwn-subst)" % scr),
        ("backtick", "`touch %s/cwd/pwn-bt`" % scr),
        ("pipe-sh", "| sh"),
        ("pipe-touch", "|touch %s/cwd/pwn-pipe" % scr),
        ("semicolon", "; touch %s/cwd/pwn-semi #" % scr),
        ("rel-up", "../../x"),
        ("tilde", "~/.ssh/id_rsa"),
        ("nul", "\u0000"),
        ("nul-path", "/etc/passwd\u0000.json"),
        ("proc", "/proc/self/environ"),
        ("dev-tcp", "/dev/tcp/127.0.0.1/9"),
        ("dev-fd", "/dev/fd/0"),
        ("canary", can),
        ("canary-url", "file://" + can),
        ("canary-rel", "../canary/secret.txt"),
        ("canary-new", os.path.join(scr, "canary", "created-by-filter.txt")),
        ("dash-opt", "--rawfile"),
        ("at-file", "@/etc/passwd"),
        ("tz-colon", ":/etc/passwd"),
        ("zone-trav", "../../../etc/passwd"),
        ("unc", "\\\\127.0.0.1\\share\\x"),
        ("ssh-url", "ssh://127.0.0.1:9/x"),
        ("data-url", "data:text/plain;base64,L2V0Yy9wYXNzd2Q="),
    ]


def values(scr, thorough):
    """[(argument class, model value)] - every value is truthy (keeps until/while loops finite)"""
    strs = danger_strings(scr)
    vals = [(c, S(s)) for c, s in strs]
    shaped = [x for x in strs if x[0] in ("abs-path", "canary", "cmd-subst", "http-url")]
    if thorough:
        shaped = strs
    for c, s in shaped:
        vals.append((c + "@bytes", Str(s.encode(), False)))
        vals.append((c + "@arr", [S(s)]))
        vals.append((c + "@obj", Obj([(S(k), S(s)) for k in ("path", "file", "url", "href", "$ref", "include", "src")])))
        vals.append((c + "@codepoints", [ord(ch) for ch in s]))
        vals.append((c + "@key", Obj([(S(s), S(s))])))
    for n in (0, 9, -1, 4096):
        vals.append(("num:%d" % n, n))
    return vals


# ---------------------------------------------------------------------------------------
# adversarial documents
def xml_docs(scr):
    can = os.path.join(scr, "canary", "secret.txt")
    dtd = os.path.join(scr, "canary", "x.dtd")
    return [
        ("doctype-system", '<?xml version="1.0"?><!DOCTYPE x SYSTEM "file://%s"><x>a</x>' % dtd),
        ("doctype-public", '<!DOCTYPE x PUBLIC "-//C06//DTD X//EN" "http://127.0.0.1:9/x.dtd"><x/>'),
        ("entity-external", '<?xml version="1.0"?><!DOCTYPE x [<!ENTITY xxe SYSTEM "file://%s">]><x a="&xxe;">&xxe;</x>' % can),
        ("entity-external-passwd", '<!DOCTYPE x [<!ENTITY xxe SYSTEM "file:///etc/passwd">]><x>&xxe;</x>'),
        ("entity-parameter", '<!DOCTYPE x [<!ENTITY %% p SYSTEM "file://%s"> %%p; <!ENTITY %% q "<!ENTITY r SYSTEM \'http://127.0.0.1:9/\'>"> %%q;]><x>&r;</x>' % dtd),
        ("entity-ndata", '<!DOCTYPE x [<!NOTATION n SYSTEM "/bin/sh"><!ENTITY u SYSTEM "file://%s" NDATA n>]><x e="u"/>' % can),
        ("entity-expansion", '<!DOCTYPE x [<!ENTITY a "aaaa"><!ENTITY b "&a;&a;&a;"><!ENTITY c "&b;&b;&b;">]><x>&c;</x>'),
        ("stylesheet-pi", '<?xml version="1.0"?><?xml-stylesheet type="text/xsl" href="file://%s"?><x/>' % can),
        ("xinclude", '<x xmlns:xi="http://www.w3.org/2001/XInclude"><xi:include href="file://%s" parse="text"/>'
                     '<xi:include href="/etc/passwd"/></x>' % can),
        ("schema-location", '<x xmlns:xsi="http://www.w3.org/2001/XMLSchema-instance" '
                            'xsi:schemaLocation="urn:x file://%s" xsi:noNamespaceSchemaLocation="http://127.0.0.1:9/x.xsd"/>' % can),
        ("php-pi", '<x><?php system("touch %s/cwd/pwn-php"); ?><![CDATA[$(touch %s/cwd/pwn-cdata)]]></x>' % (scr, scr)),
        ("encoding-decl", '<?xml version="1.0" encoding="file:///etc/passwd" standalone="no"?><x/>'),
        ("plain", '<a href="%s"><b>/etc/passwd</b><!-- %s --></a>' % (can, can)),
    ]


def yaml_docs(scr):
    can = os.path.join(scr, "canary", "secret.txt")
    return [
        ("python-apply", '!!python/object/apply:os.system ["touch %s/cwd/pwn-yaml"]' % scr),
        ("python-new", "!!python/object/new:subprocess.Popen [[touch, %s/cwd/pwn-yaml2]]" % scr),
        ("python-name", "a: !!python/name:os.system\nb: !!python/module:os\n"),
        ("ruby-object", "--- !ruby/object:Gem::Requirement\nrequirements: !ruby/object:Net::BufferedIO\n  io: %s\n" % can),
        ("java-object", "!!javax.script.ScriptEngineManager [!!java.net.URLClassLoader [[!!java.net.URL [\"http://127.0.0.1:9/\"]]]]"),
        ("include-tag", "a: !include %s\nb: !include /etc/passwd\nc: !file %s\nd: !env PATH\n" % (can, can)),
        ("include-key", "include: %s\n$include: /etc/passwd\n<<: {import: \"%s\"}\n" % (can, can)),
        ("binary", "a: !!binary L2V0Yy9wYXNzd2Q=\nb: !!binary |\n  L2V0\n  Yy9w\n"),
        ("anchors", "a: &x {p: %s}\nb: *x\nc: [*x, *x]\n" % can),
        ("merge-keys", "base: &b {path: /etc/passwd}\nd:\n  <<: *b\n  q: 1\ne:\n  <<: [*b, *b]\n"),
        ("alias-bomb", "a: &a [x,x]\nb: &b [*a,*a]\nc: &c [*b,*b]\nd: &d [*c,*c]\ne: [*d,*d]\n"),
        ("tag-directive", "%%TAG ! tag:example.com,2000:app/\n%%TAG !e! file://%s#\n---\n- !foo bar\n- !e!x y\n" % can),
        ("verbatim-tag", "- !<tag:yaml.org,2002:str> a\n- !<file://%s> b\n- !<!include> /etc/passwd\n" % can),
        ("core-tags", "- !!int 12\n- !!float 1.5\n- !!null ~\n- !!bool true\n- !!str /etc/passwd\n- !!set {a, b}\n- !!timestamp 2001-12-14\n"),
        ("multi-doc", "--- %s\n--- /etc/passwd\n...\n--- !!str file:///etc/passwd\n" % can),
        ("yaml-directive", "%YAML 1.1\n---\nyes: on\n"),
    ]


def _cbor_text(s):
    b = s.encode()
    n = len(b)
    if n < 24:
        return bytes([0x60 + n]) + b
    if n < 256:
        return bytes([0x78, n]) + b
    return bytes([0x79, n >> 8, n & 255]) + b


def _cbor_bytes(b):
    n = len(b)
    if n < 24:
        return bytes([0x40 + n]) + b
    if n < 256:
        return bytes([0x58, n]) + b
    return bytes([0x59, n >> 8, n & 255]) + b


def _cbor_tag(t, inner):
    if t < 24:
        return bytes([0xC0 + t]) + inner
    if t < 256:
        return bytes([0xD8, t]) + inner
    if t < 65536:
        return bytes([0xD9, t >> 8, t & 255]) + inner
    return bytes([0xDA]) + t.to_bytes(4, "big") + inner


def cbor_docs(scr):
    can = os.path.join(scr, "canary", "secret.txt")
    uri = _cbor_text("file://" + can)
    return [
        ("tag32-uri", _cbor_tag(32, uri)),
        ("tag32-http", _cbor_tag(32, _cbor_text("http://127.0.0.1:9/"))),
        ("tag24-embedded", _cbor_tag(24, _cbor_bytes(_cbor_tag(32, uri)))),
        ("tag55799-self", _cbor_tag(55799, _cbor_tag(32, uri))),
        ("tag55799-plain", _cbor_tag(55799, _cbor_text(can))),
        ("tag0-datetime", _cbor_tag(0, _cbor_text("2013-03-21T20:04:00Z"))),
        ("tag1-epoch", _cbor_tag(1, bytes([0x1A, 0x51, 0x4B, 0x67, 0xB0]))),
        ("tag2-bignum", _cbor_tag(2, _cbor_bytes(b"\x01" + b"\x00" * 8)) + _cbor_tag(3, _cbor_bytes(b"\x01" + b"\x00" * 8))),
        ("tag35-regex", _cbor_tag(35, _cbor_text("(a+)+$"))),
        ("tag36-mime", _cbor_tag(36, _cbor_text("Content-Type: message/external-body; access-type=local-file; name=\"%s\"\r\n\r\n" % can))),
        ("tag37-uuid", _cbor_tag(37, _cbor_bytes(b"\x00" * 16))),
        ("tag-unknown", _cbor_tag(65535, _cbor_text(can)) + _cbor_tag(4000000, _cbor_text("x"))),
        ("map-paths", bytes([0xA2]) + _cbor_text("path") + _cbor_text(can) + _cbor_text("$ref") + _cbor_text("file:///etc/passwd")),
        ("indefinite", bytes([0x9F]) + _cbor_text(can) + bytes([0x7F]) + _cbor_text("/etc/") + _cbor_text("passwd") + bytes([0xFF, 0xFF])),
        ("bytes-path", _cbor_bytes(can.encode())),
        ("simple-values", bytes([0xF4, 0xF5, 0xF6, 0xF7, 0xF8, 0x20, 0xF9, 0x7E, 0x00])),
    ]


def toml_docs(scr):
    can = os.path.join(scr, "canary", "secret.txt")
    return [
        ("paths", 'include = "%s"\npath = "/etc/passwd"\n[tool]\ncmd = "$(touch %s/cwd/pwn-toml)"\n' % (can, scr)),
        ("datetimes", "a = 1979-05-27T07:32:00-08:00\nb = 1979-05-27T07:32:00\nc = 1979-05-27\nd = 07:32:00\n"),
        ("dotted", '"file://%s".x.y = 1\n[["/etc/passwd"]]\nk = [1, 2]\n' % can),
        ("multiline", 'a = """\n%s\n"""\nb = \'\'\'/etc/passwd\'\'\'\n' % can),
    ]


def csv_docs(scr):
    can = os.path.join(scr, "canary", "secret.txt")
    return [
        ("formula", '=cmd|\' /C calc\'!A0,@SUM(1+1)*cmd|\' /C calc\'!A0,"=HYPERLINK(""file://%s"")"\n+1,-1,%s\n' % (can, can)),
        ("paths", 'path,url\n%s,file:///etc/passwd\n"/etc/pass""wd",http://127.0.0.1:9/\n' % can),
    ]


def tsv_docs(scr):
    can = os.path.join(scr, "canary", "secret.txt")
    return [("paths", "path\turl\n%s\tfile:///etc/passwd\n\\t/etc/passwd\t\\\\x\n" % can)]


def json_docs(scr):
    can = os.path.join(scr, "canary", "secret.txt")
    return [
        ("ref", json.dumps({"$ref": "file://" + can, "$include": "/etc/passwd", "__proto__": {"x": 1},
                            "$schema": "http://127.0.0.1:9/s.json", "@import": can})),
        ("nested", json.dumps([[can], {"a": {"b": {"path": can}}}, "$(touch %s/cwd/pwn-json)" % scr])),
    ]


FORMATS = {
    # format -> (decoder filter, encoder filter, extension, docs function, input is bytes)
    "xml": ("fromxml", "toxml", "xml", xml_docs, False),
    "yaml": ("fromyaml", "toyaml", "yaml", yaml_docs, False),
    "cbor": ("fromcbor", "tocbor", "cbor", cbor_docs, True),
    "toml": ("fromtoml", "totoml", "toml", toml_docs, False),
    "csv": ("fromcsv", "tocsv", "csv", csv_docs, False),
    "tsv": ("fromtsv", "totsv", "tsv", tsv_docs, False),
    "json": ("fromjson", "tojson", "json", json_docs, False),
}

DOC_PROGS = [
    ("decode", "{D}"),
    ("decode-all", "[{D}] | tojson"),
    ("strings", "[{D} | .. | strings | ltrimstr(\"file://\")] | length"),
    ("roundtrip", "{D} | {E}"),
    ("redecode", "[{D} | .. | strings | (try fromjson catch .), (try @base64d catch .), (try {D} catch .)] | length"),
    ("keys-as-args", "[{D} | .. | objects | to_entries[] | .key as $k | .value | (try ltrimstr($k) catch .), (try test($k) catch .)] | length"),
]


def doc_bytes(d):
    return d if isinstance(d, bytes) else d.encode("utf-8", "surrogatepass")


def mutate(b, rng, others):
    b = bytearray(b)
    for _ in range(rng.randrange(1, 4)):
        r = rng.random()
        if not b:
            b += bytes([rng.randrange(256)])
        elif r < 0.25:
            b[rng.randrange(len(b))] = rng.randrange(256)
        elif r < 0.4:
            i = rng.randrange(len(b))
            b[i:i] = bytes(rng.choice(b"<>!&;%[]{}*&:-#|\"'\\\n \x00\xff") for _ in range(rng.randrange(1, 4)))
        elif r < 0.55:
            i = rng.randrange(len(b))
            del b[i:i + rng.randrange(1, 6)]
        elif r < 0.7:
            del b[rng.randrange(len(b)):]
        elif r < 0.85:
            i = rng.randrange(len(b))
            j = min(len(b), i + rng.randrange(1, 30))
            b[i:i] = b[i:j]
        else:
            o = rng.choice(others)
            i = rng.randrange(len(o) + 1)
            b[rng.randrange(len(b) + 1):0] = o[i:i + rng.randrange(1, 40)]
    return bytes(b)


# ---------------------------------------------------------------------------------------
# programs
def call(name, args):
    if not args:
        return name
    return "%s(%s)" % (name, "; ".join(args))


def jstr(v):
    """jq literal of a model value (strings, arrays, objects of strings, numbers)"""
    if isinstance(v, Str):
        s = v.b.decode("utf-8", "replace")
        lit = json.dumps(s)
        return lit if v.text else "(%s | tobytes)" % lit
    if isinstance(v, list):
        return "[" + ", ".join(jstr(x) for x in v) + "]"
    if isinstance(v, Obj):
        return "{" + ", ".join("(%s): %s" % (jstr(k), jstr(x)) for k, x in v.items) + "}"
    return json.dumps(v)


CONTEXTS = [
    ("path", "try path({C}) catch ."),
    ("update", "try ({C} |= .) catch ."),
    ("interp", "\"a\\({C})b\""),
    ("bind", "{C} as $x | [$x] | tojson"),
    ("reduce", "reduce limit(5; {C}) as $x (null; $x)"),
    ("alt", "({C})? // \"alt\""),
]


NO_UPDATE = {"repeat", "recurse", "while"}     # `f |= .` over an infinite path set never ends


def callables_of(nat):
    """[(name, arity, label)] of every native and prelude definition, minus the excluded ones"""
    seen = set()
    out = []
    for name, args in list(nat["natives"]) + list(nat["defs"]):
        key = (name, len(args))
        if name in EXCLUDED or key in seen:
            continue
        seen.add(key)
        out.append((name, len(args), "%s/%d" % (name, len(args))))
    return out


def _pick(seq, k, *salt):
    r = random.Random(hashlib.sha256(repr(salt).encode()).hexdigest())
    seq = list(seq)
    return r.sample(seq, min(k, len(seq)))


def native_requests(callables, vals, seed, thorough):
    """yield request dicts: {prog, cases:[{input}], meta:[(site, argclass)] per case}"""
    str_vals = [(c, v) for c, v in vals if isinstance(v, Str) and v.text]
    for name, n, label in callables:
        site = "native:" + label
        # T0: all arguments `.`, every value as input
        prog = call(name, ["."] * n)
        yield {"prog": prog, "cases": [{"input": enc(v)} for _c, v in vals],
               "meta": [(site, c + "|input") for c, _v in vals]}
        if name.startswith("@"):
            prog = name + ' "x\\(.)y\\(.[0]?)"'
            yield {"prog": prog, "cases": [{"input": enc(v)} for _c, v in vals],
                   "meta": [(site, c + "|format-string") for c, _v in vals]}
        # T1: the value as argument i (bound through $v), the others `.`
        for i in range(n):
            args = ["."] * n
            args[i] = "$v"
            prog = ".[0] as $v | .[1] | " + call(name, args)
            src = vals if thorough else str_vals
            cases, meta = [], []
            for c, v in src:
                cases.append({"input": enc([v, v])})
                meta.append((site, "%s|arg%d" % (c, i)))
                cases.append({"input": enc([v, Obj([(S("a"), v), (S("path"), v)])])})
                meta.append((site, "%s|arg%d,obj-input" % (c, i)))
            yield {"prog": prog, "cases": cases, "meta": meta}
        # T2: literal constants, the other arguments `empty` / constants
        for i in range(n):
            for c, v in _pick(str_vals, 6 if thorough else 3, seed, label, i):
                args = ["empty"] * n
                args[i] = jstr(v)
                yield {"prog": call(name, args), "cases": [{"input": enc(v)}], "meta": [(site, "%s|const%d" % (c, i))]}
                yield {"prog": call(name, [jstr(v)] * n), "cases": [{"input": enc(v)}],
                       "meta": [(site, "%s|const-all" % c)]}
        # T3: other evaluation contexts (paths, updates, interpolation, binders)
        for cname, tmpl in CONTEXTS:
            if cname == "update" and name in NO_UPDATE:
                continue
            prog = tmpl.replace("{C}", call(name, ["."] * n))
            chosen = _pick(vals, 12 if thorough else 5, seed, label, cname)
            yield {"prog": prog, "cases": [{"input": enc(v)} for _c, v in chosen],
                   "meta": [(site, "%s|ctx:%s" % (c, cname)) for c, _v in chosen]}


def pipeline_requests(callables, vals, rng, count):
    str_vals = [(c, v) for c, v in vals if isinstance(v, Str) and v.text]
    for _ in range(count):
        parts = []
        names = []
        for _k in range(rng.randrange(2, 4)):
            name, n, label = rng.choice(callables)
            args = [rng.choice([".", "$v", jstr(rng.choice(str_vals)[1]), "(.[0]? // .)"]) for _ in range(n)]
            parts.append("(try limit(3; %s) catch .)" % call(name, args))
            names.append(label)
        prog = ".[0] as $v | .[1] | " + " | ".join(parts)
        chosen = [rng.choice(vals) for _ in range(4)]
        yield {"prog": prog, "cases": [{"input": enc([rng.choice(str_vals)[1], v])} for _c, v in chosen],
               "meta": [("pipe:" + "|".join(names), c + "|pipeline") for c, _v in chosen]}


def doc_requests(scr, rng, n_mut):
    """documents through every decoder filter (own format with all programs, foreign formats
    with the plain decoder), plus mutated documents"""
    all_docs = []
    for fmt, (_d, _e, _x, fn, _b) in FORMATS.items():
        for kind, d in fn(scr):
            all_docs.append((fmt, kind, doc_bytes(d)))
    for fmt, (dec_f, enc_f, _x, _fn, is_bytes) in FORMATS.items():
        own = [(k, b) for f, k, b in all_docs if f == fmt]
        for pname, tmpl in DOC_PROGS:
            prog = tmpl.replace("{D}", dec_f).replace("{E}", enc_f)
            yield {"prog": prog, "cases": [{"input": enc(Str(b, not is_bytes))} for _k, b in own],
                   "meta": [("doc:%s/%s>%s" % (fmt, k, dec_f), pname) for k, _b in own]}
        foreign = [(f, k, b) for f, k, b in all_docs if f != fmt]
        yield {"prog": dec_f, "cases": [{"input": enc(Str(b, not is_bytes))} for _f, _k, b in foreign],
               "meta": [("doc:%s/%s>%s" % (f, k, dec_f), "foreign-decoder") for f, k, _b in foreign]}
    if n_mut:
        pool = [b for _f, _k, b in all_docs]
        per_fmt = max(1, n_mut // len(FORMATS))
        for fmt, (dec_f, enc_f, _x, _fn, is_bytes) in FORMATS.items():
            own = [(k, b) for f, k, b in all_docs if f == fmt]
            cases, meta = [], []
            for _ in range(per_fmt):
                k, b = rng.choice(own)
                cases.append({"input": enc(Str(mutate(b, rng, pool), not is_bytes))})
                meta.append(("doc:%s/%s~mut>%s" % (fmt, k, dec_f), "mutated"))
            prog = "[%s | .. | strings] | length" % dec_f
            for i in range(0, len(cases), 200):
                yield {"prog": prog, "cases": cases[i:i + 200], "meta": meta[i:i + 200]}


ORDINARY = [
    '"a,b, c" | split(", ")', 'ascii_downcase', '[.[]? | tostring] | join("/")', 'test("^/etc"; "x")',
    '[match("[a-z]+"; "g").string]', 'sub("(?<x>[a-z]+)"; "\\(.x)!")', 'gsub("/"; "\\\\")', 'splits("/")',
    'capture("(?<dir>.*)/(?<base>[^/]*)$")', 'ltrimstr("/") | rtrimstr("d")', '@base64 | @base64d', '@uri', '@sh',
    '@html', '@json', '@csv "\\([., .])"', '@tsv "\\([., .])"', '@text', 'tojson | fromjson', 'explode | implode',
    '[limit(5; repeat(.))]', 'to_entries?', 'paths?', '[..]', 'length', 'utf8bytelength', 'tobytes | tostring',
    'now | todate', 'now | gmtime | mktime', '0 | strftime("%Y-%m-%dT%H:%M:%SZ")', '"2015-03-05T23:51:47Z" | fromdate',
    '"2015-03-05T23:51:47Z" | strptime("%Y-%m-%dT%H:%M:%SZ") | mktime', '1425599507 | todate', 'env | type',
    'input? // "none"', '[inputs]', 'debug', 'debug("msg \\(.)")', 'stderr', 'input_line_number?', '$__loc__',
    'error(.)', 'try error(.) catch .', 'halt_error', 'halt', 'getpath(["a","b"])?', 'ascii', 'tojson | @sh',
    'splits("a") | ascii_upcase', 'sort', 'unique', 'group_by(.)', 'min, max', 'add', 'any, all', 'flatten?',
    'range(3)', 'tostring | tonumber?', 'infinite, nan | tostring', 'walk(.)', 'env.HOME', 'env.PATH | split(":")',
    'keys?', 'has(0)?', 'in([1])?', 'indices("/")', 'index("/"), rindex("/")', 'startswith("/")', 'trim, ltrim, rtrim',
    'toyaml', 'toxml?', 'tocbor | fromcbor', 'totoml?', '[.] | tocsv', '[.] | totsv', 'tojson | toyaml | fromyaml',
]


def manual_examples(repo):
    """programs of the `code --> outputs` examples in docs/*.dj of the current tree"""
    out = []
    d = os.path.join(repo, "docs")
    try:
        files = sorted(f for f in os.listdir(d) if f.endswith(".dj"))
    except OSError:
        return out
    for fn in files:
        try:
            text = open(os.path.join(d, fn), encoding="utf-8").read()
        except OSError:
            continue
        n = 0
        for m in re.finditer(r"```\n(.*?)```", text, re.S):
            block = m.group(1)
            if "-->" in block and not block.lstrip().startswith("$"):
                out.append(("manual:%s#%d" % (fn, n), block.split("-->")[0].strip()))
                n += 1
        text2 = re.sub(r"```\n.*?```", "", text, flags=re.S)
        for m in re.finditer(r"`([^`\n]*?)\s*-->[^`\n]*`", text2):
            out.append(("manual:%s#%d" % (fn, n), m.group(1).strip()))
            n += 1
    return out


TIME_PROGS = [
    ("localtime", "localtime"), ("localtime-mktime", "localtime | mktime"),
    ("strflocaltime", 'strflocaltime("%Y-%m-%d %H:%M %Z %z %Q")'), ("now-local", "now | localtime | todate?"),
    ("gmtime", "gmtime"), ("strftime-zone", 'strftime("%Z %z %Q")'), ("todate", "todate"),
]
TIME_STR_PROGS = [
    ("strptime-Q", 'strptime("%Y-%m-%d %Q")'), ("strptime-Z", 'strptime("%Y-%m-%d %Z")'),
    ("strptime-z", 'strptime("%Y-%m-%d %z")'), ("strptime-local", 'strptime("%Y-%m-%d %Q") | mktime | localtime'),
    ("fromdate", "fromdate"), ("strptime-fmt-from-data", ". as $s | \"2020-01-01\" | strptime($s)"),
    ("strflocaltime-fmt-from-data", ". as $s | 0 | strflocaltime($s)"),
]


def time_requests(scr, tzname):
    nums = [0, 1700000000, 1700000000.5, -1, 2 ** 40]
    for pid_, prog in TIME_PROGS:
        yield {"prog": prog, "cases": [{"input": enc(x)} for x in nums],
               "meta": [("time:%s@TZ=%s" % (pid_, tzname), "num") for _ in nums]}
    zs = [("Europe/Berlin", "iana"), ("UTC", "utc"), ("europe/berlin", "iana-lower"), ("posixrules", "posixrules"),
          ("+01:00", "offset"), ("CEST", "abbrev")] + [(s, c) for c, s in danger_strings(scr)]
    for pid_, prog in TIME_STR_PROGS:
        cases, meta = [], []
        for z, c in zs:
            for text in ("2020-01-01 " + z, z, "2020-01-01T00:00:00[%s]" % z):
                cases.append({"input": enc(S(text))})
                meta.append(("time:%s@TZ=%s" % (pid_, tzname), c))
        yield {"prog": prog, "cases": cases, "meta": meta}
