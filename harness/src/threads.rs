//! `threads`: compile once, execute the same compiled filters concurrently from many
//! threads, and compare every concurrent execution with the isolated one (C19).
use crate::codec::{dec, enc};
use jaq_all::data::{Data, DataKind, Filter, Runner};
use jaq_core::{Ctx, Vars};
use jaq_json::Val;
use jaq_std::input::RcIter;
use serde_json::{json, Value};
use std::sync::atomic::{AtomicU64, AtomicUsize, Ordering::Relaxed, Ordering::SeqCst};
use std::sync::{Arc, Barrier, Mutex};

// the static half of the property: a compiled filter is shareable
#[allow(dead_code)]
fn assert_send_sync<T: Send + Sync>() {}
#[allow(dead_code)]
fn static_assertions() {
    assert_send_sync::<Filter>();
    #[cfg(feature = "sync")]
    assert_send_sync::<Val>();
}

struct Rng(u64);
impl Rng {
    fn next(&mut self) -> u64 {
        // splitmix64
        self.0 = self.0.wrapping_add(0x9e3779b97f4a7c15);
        let mut z = self.0;
        z = (z ^ (z >> 30)).wrapping_mul(0xbf58476d1ce4e5b9);
        z = (z ^ (z >> 27)).wrapping_mul(0x94d049bb133111eb);
        z ^ (z >> 31)
    }
}

static LAST_TID: AtomicUsize = AtomicUsize::new(usize::MAX);
static SWITCHES: AtomicU64 = AtomicU64::new(0);
static PULLS: AtomicU64 = AtomicU64::new(0);

fn jitter(rng: &mut Rng, tid: usize, level: u64) {
    PULLS.fetch_add(1, Relaxed);
    if LAST_TID.swap(tid, SeqCst) != tid {
        SWITCHES.fetch_add(1, Relaxed);
    }
    if level == 0 {
        return;
    }
    match rng.next() % (4 * level.max(1)) {
        0 => std::thread::yield_now(),
        1 if level >= 2 => std::thread::sleep(std::time::Duration::from_micros(rng.next() % 50)),
        _ => (),
    }
}

/// Run filter on input with a fresh context; returns the canonical text of what was observed.
fn run_one(
    filter: &Filter,
    vars: &[Val],
    input: Val,
    take: usize,
    rng: &mut Rng,
    tid: usize,
    level: u64,
) -> String {
    let runner = Runner::default();
    let inputs: Box<dyn Iterator<Item = Result<Val, String>>> = Box::new(std::iter::empty());
    let rc = RcIter::new(inputs);
    let data = Data {
        runner: &runner,
        lut: &filter.lut,
        inputs: &rc,
    };
    let ctx = Ctx::<DataKind>::new(&data, Vars::new(vars.iter().cloned()));
    let mut it = filter.id.run((ctx, input));
    let mut outs = Vec::new();
    let mut end = json!(["cut"]);
    for _ in 0..take {
        jitter(rng, tid, level);
        match it.next() {
            None => {
                end = json!(["end"]);
                break;
            }
            Some(Ok(v)) => outs.push(enc(&v)),
            Some(Err(e)) => {
                end = match e.get_err() {
                    Ok(err) => json!(["error", enc(&err.into_val())]),
                    Err(e) => match e.get_halt() {
                        Ok(c) => json!(["halt", c]),
                        Err(_) => json!(["internal"]),
                    },
                };
                break;
            }
        }
    }
    json!([outs, end]).to_string()
}

struct Prog {
    text: String,
    var_names: Vec<String>,
    vars: Vec<Value>,
    inputs: Vec<Value>,
}

pub fn main(args: &[String]) {
    let path = args.first().cloned().unwrap_or_default();
    let text = std::fs::read_to_string(&path).expect("read request");
    let req: Value = serde_json::from_str(&text).expect("parse request");
    let threads = req["threads"].as_u64().unwrap_or(4) as usize;
    let reps = req["reps"].as_u64().unwrap_or(10) as usize;
    let seed = req["seed"].as_u64().unwrap_or(1);
    let level = req["jitter"].as_u64().unwrap_or(1);
    let take = req["take"].as_u64().unwrap_or(64) as usize;
    let compile_during = req["compile_during"].as_bool().unwrap_or(false);
    let share_values = req["share_values"].as_bool().unwrap_or(false);
    let empty = Vec::new();
    let progs: Vec<Prog> = req["programs"]
        .as_array()
        .unwrap_or(&empty)
        .iter()
        .map(|p| Prog {
            text: p["prog"].as_str().unwrap_or(".").to_string(),
            var_names: p["vars"]
                .as_array()
                .unwrap_or(&empty)
                .iter()
                .map(|nv| nv[0].as_str().unwrap_or("").to_string())
                .collect(),
            vars: p["vars"].as_array().unwrap_or(&empty).iter().map(|nv| nv[1].clone()).collect(),
            inputs: p["inputs"].as_array().unwrap_or(&empty).clone(),
        })
        .collect();

    // compile once
    let mut filters: Vec<Option<Filter>> = Vec::new();
    for p in &progs {
        filters.push(crate::eval::compile(&p.text, &p.var_names).ok());
    }
    let filters = Arc::new(filters);
    let progs = Arc::new(progs);

    // isolated baseline (single thread, no jitter), twice: determinism
    let mut expected: Vec<Vec<String>> = Vec::new();
    let mut nondet = Vec::new();
    for (pi, p) in progs.iter().enumerate() {
        let mut row = Vec::new();
        if let Some(f) = &filters[pi] {
            let vars: Vec<Val> = p.vars.iter().map(|v| dec(v).unwrap_or(Val::Null)).collect();
            for (ii, inp) in p.inputs.iter().enumerate() {
                let mut rng = Rng(0);
                let a = run_one(f, &vars, dec(inp).unwrap_or(Val::Null), take, &mut rng, usize::MAX - 1, 0);
                let b = run_one(f, &vars, dec(inp).unwrap_or(Val::Null), take, &mut rng, usize::MAX - 1, 0);
                if a != b {
                    nondet.push(json!({"prog": pi, "input": ii, "first": a, "second": b}));
                }
                row.push(a);
            }
        }
        expected.push(row);
    }
    let expected = Arc::new(expected);

    #[cfg(feature = "sync")]
    let shared: Arc<Vec<(Vec<Val>, Vec<Val>)>> = Arc::new(
        progs
            .iter()
            .map(|p| {
                (
                    p.vars.iter().map(|v| dec(v).unwrap_or(Val::Null)).collect(),
                    p.inputs.iter().map(|v| dec(v).unwrap_or(Val::Null)).collect(),
                )
            })
            .collect(),
    );

    let mismatches = Arc::new(Mutex::new(Vec::<Value>::new()));
    let runs = Arc::new(AtomicU64::new(0));
    let barrier = Arc::new(Barrier::new(threads + usize::from(compile_during)));
    let mut handles = Vec::new();
    for tid in 0..threads {
        let (filters, progs, expected) = (filters.clone(), progs.clone(), expected.clone());
        let (mismatches, runs, barrier) = (mismatches.clone(), runs.clone(), barrier.clone());
        #[cfg(feature = "sync")]
        let shared = shared.clone();
        let h = std::thread::Builder::new()
            .stack_size(64 << 20)
            .spawn(move || {
                let mut rng = Rng(seed.wrapping_mul(1000003).wrapping_add(tid as u64));
                barrier.wait();
                for _rep in 0..reps {
                    // per-thread order of (program, input) pairs
                    let mut order: Vec<(usize, usize)> = Vec::new();
                    for (pi, p) in progs.iter().enumerate() {
                        for ii in 0..p.inputs.len() {
                            order.push((pi, ii));
                        }
                    }
                    for i in (1..order.len()).rev() {
                        let j = (rng.next() % (i as u64 + 1)) as usize;
                        order.swap(i, j);
                    }
                    for (pi, ii) in order {
                        let Some(f) = &filters[pi] else { continue };
                        let _ = share_values;
                        #[cfg(feature = "sync")]
                        let (vars, input) = if share_values {
                            (shared[pi].0.clone(), shared[pi].1[ii].clone())
                        } else {
                            (
                                progs[pi].vars.iter().map(|v| dec(v).unwrap_or(Val::Null)).collect::<Vec<_>>(),
                                dec(&progs[pi].inputs[ii]).unwrap_or(Val::Null),
                            )
                        };
                        #[cfg(not(feature = "sync"))]
                        let (vars, input) = (
                            progs[pi].vars.iter().map(|v| dec(v).unwrap_or(Val::Null)).collect::<Vec<_>>(),
                            dec(&progs[pi].inputs[ii]).unwrap_or(Val::Null),
                        );
                        let got = run_one(f, &vars, input, take, &mut rng, tid, level);
                        runs.fetch_add(1, Relaxed);
                        if got != expected[pi][ii] {
                            mismatches.lock().unwrap().push(json!({
                                "prog": pi, "input": ii, "thread": tid,
                                "expected": expected[pi][ii], "got": got}));
                        }
                    }
                }
            })
            .expect("spawn");
        handles.push(h);
    }
    let mut compiled_during = 0u64;
    if compile_during {
        // compile (and run) filters while the others execute
        let (progs, expected, mismatches) = (progs.clone(), expected.clone(), mismatches.clone());
        let barrier = barrier.clone();
        let h = std::thread::Builder::new()
            .stack_size(64 << 20)
            .spawn(move || {
                let mut n = 0u64;
                barrier.wait();
                let mut rng = Rng(seed ^ 0xabcdef);
                for _ in 0..reps.max(1) {
                    for (pi, p) in progs.iter().enumerate() {
                        if let Ok(f) = crate::eval::compile(&p.text, &p.var_names) {
                            n += 1;
                            let vars: Vec<Val> = p.vars.iter().map(|v| dec(v).unwrap_or(Val::Null)).collect();
                            for (ii, inp) in p.inputs.iter().enumerate().take(2) {
                                let got = run_one(&f, &vars, dec(inp).unwrap_or(Val::Null), take, &mut rng, usize::MAX - 2, 1);
                                if got != expected[pi][ii] {
                                    mismatches.lock().unwrap().push(json!({
                                        "prog": pi, "input": ii, "thread": "compiler",
                                        "expected": expected[pi][ii], "got": got}));
                                }
                            }
                        }
                    }
                }
                n
            })
            .expect("spawn");
        compiled_during = h.join().unwrap_or(0);
    }
    let mut panicked = 0;
    for h in handles {
        if h.join().is_err() {
            panicked += 1;
        }
    }
    let mm = mismatches.lock().unwrap();
    let out = json!({
        "threads": threads, "reps": reps, "programs": progs.len(),
        "compiled": filters.iter().filter(|f| f.is_some()).count(),
        "runs": runs.load(Relaxed), "pulls": PULLS.load(Relaxed),
        "switches": SWITCHES.load(Relaxed),
        "mismatches": mm.len(), "mismatch_samples": mm.iter().take(5).collect::<Vec<_>>(),
        "nondeterministic": nondet, "thread_panics": panicked,
        "compiled_during": compiled_during,
        "sync_values": cfg!(feature = "sync"), "share_values": share_values && cfg!(feature = "sync"),
    });
    println!("{out}");
}
