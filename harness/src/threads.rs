//! `threads`: compile once, execute the same compiled filters concurrently from many
//! threads, and compare every concurrent execution with the isolated one (C19).
//!
//! `jaqmon threads <request.json>` prints one JSON summary. Request:
//! `{"threads":T,"reps":R,"seed":s,"jitter":0..3,"take":N,"lockstep":bool,
//!   "compile_during":bool,"share_values":bool,"dump_expected":bool,"defs":"all"|"core","compile_limit":n,"summary_path":file,"light":bool,
//!   "programs":[{"prog":text,"vars":[[name,wire]..],"inputs":[wire..]}..]}`
//!
//! Phases: (1) every program is compiled ONCE; (2) isolated baseline on the main thread,
//! twice (determinism); (3) T threads x R repetitions run all (program, input) pairs on the
//! shared `Filter`s, each run with its own `Ctx`, pulls interleaved with seeded
//! `yield_now`/`sleep` jitter; optionally one more thread compiles (and runs) all programs
//! meanwhile; with feature `sync` and `share_values`, the very same `Arc`-backed input
//! values and global variables are handed to all threads; (4) isolated baseline again, in
//! reverse program order, and the shared values are compared with their original wire form.
//!
//! All monitoring counters are `Relaxed` atomics on purpose: they must not add
//! happens-before edges that could hide a race from ThreadSanitizer / Miri.
use crate::codec::{dec, enc};
use jaq_all::data::{Data, DataKind, Filter, Runner};
use jaq_core::{Ctx, Vars};
use jaq_json::Val;
use jaq_std::input::RcIter;
use serde_json::{json, Value};
use std::collections::{BTreeMap, BTreeSet};
use std::panic::{catch_unwind, AssertUnwindSafe};
use std::sync::atomic::{AtomicU64, AtomicUsize, Ordering::Relaxed};
use std::sync::{Arc, Barrier, Mutex};

// the static half of the property: a compiled filter is shareable, and so are values in
// their thread-safe representation. If either stops holding, the helper stops compiling.
#[allow(dead_code)]
fn assert_send_sync<T: Send + Sync>() {}
#[allow(dead_code)]
fn static_assertions() {
    assert_send_sync::<Filter>();
    assert_send_sync::<jaq_core::Lut<DataKind>>();
    #[cfg(feature = "sync")]
    assert_send_sync::<Val>();
}

struct Rng(u64);
impl Rng {
    fn next(&mut self) -> u64 {
        // splitmix64
        self.0 = self.0.wrapping_add(0x9e3779b97f4a7c15);
        let mut z = self.0;
        z = (z ^ (z >> 30)).wrapping_mul(0xbf58476d1ce4e5b9);
        z = (z ^ (z >> 27)).wrapping_mul(0x94d049bb133111eb);
        z ^ (z >> 31)
    }
    fn shuffle<T>(&mut self, xs: &mut [T]) {
        for i in (1..xs.len()).rev() {
            let j = (self.next() % (i as u64 + 1)) as usize;
            xs.swap(i, j);
        }
    }
}

static LAST_TID: AtomicUsize = AtomicUsize::new(usize::MAX);
static SWITCHES: AtomicU64 = AtomicU64::new(0);
static PULLS: AtomicU64 = AtomicU64::new(0);
/// number of threads currently inside a run, and its maximum
static ACTIVE: AtomicUsize = AtomicUsize::new(0);
static MAX_ACTIVE: AtomicUsize = AtomicUsize::new(0);
/// ticket counter for run completions (global completion sequence)
static SEQ: AtomicU64 = AtomicU64::new(0);

const ISOLATED: usize = usize::MAX - 1;
const COMPILER: usize = usize::MAX - 2;

fn jitter(rng: &mut Rng, tid: usize, level: u64) {
    PULLS.fetch_add(1, Relaxed);
    if LAST_TID.swap(tid, Relaxed) != tid {
        SWITCHES.fetch_add(1, Relaxed);
    }
    let r = rng.next();
    match level {
        0 => (),
        1 => {
            if r % 4 == 0 {
                std::thread::yield_now()
            }
        }
        2 => match r % 8 {
            0 | 1 => std::thread::yield_now(),
            2 => std::thread::sleep(std::time::Duration::from_micros((r >> 8) % 50)),
            _ => (),
        },
        _ => match r % 4 {
            0 | 1 => std::thread::yield_now(),
            2 => std::thread::sleep(std::time::Duration::from_micros((r >> 8) % 200)),
            _ => (),
        },
    }
}

fn clip(s: &str) -> String {
    if s.len() <= 1500 {
        s.to_string()
    } else {
        let mut e = 1500;
        while !s.is_char_boundary(e) {
            e -= 1;
        }
        format!("{}…(+{} bytes)", &s[..e], s.len() - e)
    }
}

/// Run filter on input with a fresh context; returns the canonical text of what a client
/// observes (typed encoding of every output, then how the stream ended) and whether another
/// thread was inside a run of the same filter at some pull.
#[allow(clippy::too_many_arguments)]
fn run_one(
    filter: &Filter,
    vars: &[Val],
    input: Val,
    take: usize,
    rng: &mut Rng,
    tid: usize,
    level: u64,
    same: Option<&AtomicUsize>,
) -> (String, bool) {
    let mut overlapped = false;
    if let Some(a) = same {
        a.fetch_add(1, Relaxed);
        let c = ACTIVE.fetch_add(1, Relaxed) + 1;
        MAX_ACTIVE.fetch_max(c, Relaxed);
    }
    let r = catch_unwind(AssertUnwindSafe(|| {
        let runner = Runner::default();
        let inputs: Box<dyn Iterator<Item = Result<Val, String>>> = Box::new(std::iter::empty());
        let rc = RcIter::new(inputs);
        let data = Data {
            runner: &runner,
            lut: &filter.lut,
            inputs: &rc,
        };
        let ctx = Ctx::<DataKind>::new(&data, Vars::new(vars.iter().cloned()));
        let mut it = filter.id.run((ctx, input));
        let mut outs = Vec::new();
        let mut end = json!(["cut"]);
        for _ in 0..take {
            jitter(rng, tid, level);
            if let Some(a) = same {
                overlapped |= a.load(Relaxed) > 1;
            }
            match it.next() {
                None => {
                    end = json!(["end"]);
                    break;
                }
                Some(Ok(v)) => outs.push(enc(&v)),
                Some(Err(e)) => {
                    end = match e.get_err() {
                        Ok(err) => json!(["error", enc(&err.into_val())]),
                        Err(e) => match e.get_halt() {
                            Ok(c) => json!(["halt", c]),
                            Err(_) => json!(["internal"]),
                        },
                    };
                    break;
                }
            }
        }
        json!([outs, end]).to_string()
    }));
    if let Some(a) = same {
        a.fetch_sub(1, Relaxed);
        ACTIVE.fetch_sub(1, Relaxed);
    }
    match r {
        Ok(s) => (s, overlapped),
        Err(_) => (json!([[], ["panic", crate::take_panic()]]).to_string(), overlapped),
    }
}

struct Prog {
    text: String,
    var_names: Vec<String>,
    vars: Vec<Value>,
    inputs: Vec<Value>,
}

impl Prog {
    fn dec_vars(&self) -> Vec<Val> {
        self.vars.iter().map(|v| dec(v).unwrap_or(Val::Null)).collect()
    }
    fn dec_input(&self, ii: usize) -> Val {
        dec(&self.inputs[ii]).unwrap_or(Val::Null)
    }
}

/// `core_defs`: compile against jaq-core's definitions only (no jaq-std / jaq-json
/// definitions; all native filters stay available) — Miri interprets the compiler ~10^4
/// times slower, and most of a compilation is the prelude.
fn compile_outcome(p: &Prog, core_defs: bool) -> (Option<Filter>, String) {
    let compile = || {
        if core_defs {
            jaq_all::compile_with(&p.text, jaq_core::defs(), crate::eval::all_funs(), &p.var_names).map_err(|errs| {
                let (text, _, _) = crate::eval::render_reports(&errs);
                json!({ "report": text })
            })
        } else {
            crate::eval::compile(&p.text, &p.var_names)
        }
    };
    match catch_unwind(AssertUnwindSafe(compile)) {
        Ok(Ok(f)) => (Some(f), "ok".to_string()),
        Ok(Err(rep)) => (None, format!("error: {}", rep["report"].as_str().unwrap_or("?"))),
        Err(_) => (None, format!("panic: {}", crate::take_panic())),
    }
}

/// isolated runs of every (program, input) on the calling thread, programs in the given order
fn baseline(
    progs: &[Prog],
    filters: &[Option<Filter>],
    take: usize,
    order: &[usize],
    twice: bool,
) -> Vec<Vec<(String, String)>> {
    let mut rows: Vec<Vec<(String, String)>> = progs.iter().map(|_| Vec::new()).collect();
    for &pi in order {
        let p = &progs[pi];
        if let Some(f) = &filters[pi] {
            let vars = p.dec_vars();
            for ii in 0..p.inputs.len() {
                let mut rng = Rng(0);
                let a = run_one(f, &vars, p.dec_input(ii), take, &mut rng, ISOLATED, 0, None).0;
                let b = if twice {
                    run_one(f, &vars, p.dec_input(ii), take, &mut rng, ISOLATED, 0, None).0
                } else {
                    a.clone()
                };
                rows[pi].push((a, b));
            }
        }
    }
    rows
}

pub fn main(args: &[String]) {
    let path = args.first().cloned().unwrap_or_default();
    if path == "--noop" {
        // used to (pre)build the helper under Miri without running a workload
        println!("{}", json!({"noop": true, "sync_values": cfg!(feature = "sync")}));
        return;
    }
    let text = std::fs::read_to_string(&path).expect("read request");
    let req: Value = serde_json::from_str(&text).expect("parse request");
    let threads = req["threads"].as_u64().unwrap_or(4) as usize;
    let reps = req["reps"].as_u64().unwrap_or(10) as usize;
    let seed = req["seed"].as_u64().unwrap_or(1);
    let level = req["jitter"].as_u64().unwrap_or(1);
    let take = req["take"].as_u64().unwrap_or(64) as usize;
    let lockstep = req["lockstep"].as_bool().unwrap_or(false);
    let compile_during = req["compile_during"].as_bool().unwrap_or(false);
    // how many programs the compile-while-running thread compiles per repetition
    let compile_limit = req["compile_limit"].as_u64().map_or(usize::MAX, |n| n as usize);
    // light: one isolated run per pair instead of two, no isolated re-run afterwards (Miri)
    let light = req["light"].as_bool().unwrap_or(false);
    let core_defs = req["defs"].as_str() == Some("core");
    let share_values = req["share_values"].as_bool().unwrap_or(false) && cfg!(feature = "sync");
    let empty = Vec::new();
    let progs: Vec<Prog> = req["programs"]
        .as_array()
        .unwrap_or(&empty)
        .iter()
        .map(|p| Prog {
            text: p["prog"].as_str().unwrap_or(".").to_string(),
            var_names: p["vars"]
                .as_array()
                .unwrap_or(&empty)
                .iter()
                .map(|nv| nv[0].as_str().unwrap_or("").to_string())
                .collect(),
            vars: p["vars"].as_array().unwrap_or(&empty).iter().map(|nv| nv[1].clone()).collect(),
            inputs: p["inputs"].as_array().unwrap_or(&empty).clone(),
        })
        .collect();

    // (1) compile once
    let mut filters: Vec<Option<Filter>> = Vec::new();
    let mut compile_out: Vec<String> = Vec::new();
    for p in &progs {
        let (f, o) = compile_outcome(p, core_defs);
        filters.push(f);
        compile_out.push(o);
    }
    let compile_errors: Vec<Value> = compile_out
        .iter()
        .enumerate()
        .filter(|(_, o)| o.as_str() != "ok")
        .map(|(i, o)| json!([i, clip(o)]))
        .collect();
    let filters = Arc::new(filters);
    let progs = Arc::new(progs);
    let compile_out = Arc::new(compile_out);

    // (2) isolated baseline (single thread, no jitter), twice: determinism
    let fwd: Vec<usize> = (0..progs.len()).collect();
    let base = baseline(&progs, &filters, take, &fwd, !light);
    let mut nondet = Vec::new();
    let mut isolated_panics = Vec::new();
    let mut outcome_classes: BTreeMap<String, u64> = BTreeMap::new();
    let mut isolated_runs = 0u64;
    let mut expected: Vec<Vec<String>> = Vec::new();
    for (pi, row) in base.into_iter().enumerate() {
        let mut e = Vec::new();
        for (ii, (a, b)) in row.into_iter().enumerate() {
            isolated_runs += if light { 1 } else { 2 };
            if a != b {
                nondet.push(json!({"prog": pi, "input": ii, "first": clip(&a), "second": clip(&b)}));
            }
            if let Ok(v) = serde_json::from_str::<Value>(&a) {
                let kind = v[1][0].as_str().unwrap_or("?").to_string();
                if kind == "panic" {
                    isolated_panics.push(json!({"prog": pi, "input": ii, "panic": v[1][1]}));
                }
                let n = v[0].as_array().map_or(0, |o| o.len());
                let cls = format!("{}:{}", kind, if n == 0 { "0" } else if n == 1 { "1" } else { "n" });
                *outcome_classes.entry(cls).or_insert(0) += 1;
            }
            e.push(a);
        }
        expected.push(e);
    }
    let expected = Arc::new(expected);

    #[cfg(feature = "sync")]
    let shared: Arc<Vec<(Vec<Val>, Vec<Val>)>> = Arc::new(
        progs
            .iter()
            .map(|p| (p.dec_vars(), (0..p.inputs.len()).map(|ii| p.dec_input(ii)).collect()))
            .collect(),
    );

    // (3) the concurrent phase
    let pairs: Vec<(usize, usize)> = progs
        .iter()
        .enumerate()
        .flat_map(|(pi, p)| (0..p.inputs.len()).map(move |ii| (pi, ii)))
        .filter(|(pi, _)| filters[*pi].is_some())
        .collect();
    let pairs = Arc::new(pairs);
    let same_active: Arc<Vec<AtomicUsize>> = Arc::new(progs.iter().map(|_| AtomicUsize::new(0)).collect());
    let rep_done: Arc<Vec<AtomicUsize>> = Arc::new((0..reps).map(|_| AtomicUsize::new(0)).collect());
    let mismatches = Arc::new(Mutex::new(Vec::<Value>::new()));
    let mismatch_count = Arc::new(AtomicU64::new(0));
    let runs = Arc::new(AtomicU64::new(0));
    let overlapped_runs = Arc::new(AtomicU64::new(0));
    let barrier = Arc::new(Barrier::new(threads + usize::from(compile_during)));
    let rep_barrier = Arc::new(Barrier::new(threads));
    let mut handles = Vec::new();
    for tid in 0..threads {
        let (filters, progs, expected, pairs) = (filters.clone(), progs.clone(), expected.clone(), pairs.clone());
        let (mismatches, mismatch_count, runs, overlapped_runs) =
            (mismatches.clone(), mismatch_count.clone(), runs.clone(), overlapped_runs.clone());
        let (barrier, rep_barrier, same_active, rep_done) =
            (barrier.clone(), rep_barrier.clone(), same_active.clone(), rep_done.clone());
        #[cfg(feature = "sync")]
        let shared = shared.clone();
        let h = std::thread::Builder::new()
            .stack_size(64 << 20)
            .spawn(move || {
                let mut rng = Rng(seed.wrapping_mul(1000003).wrapping_add(tid as u64));
                // (rank of this thread among the finishers of each rep, tickets of its completions)
                let mut ranks: Vec<usize> = Vec::with_capacity(reps);
                let mut tickets: Vec<u64> = Vec::new();
                barrier.wait();
                for rep in 0..reps {
                    let mut order: Vec<(usize, usize)> = pairs.to_vec();
                    if lockstep {
                        // same order in every thread: maximal overlap on the same filter
                        rep_barrier.wait();
                        Rng(seed ^ (rep as u64).wrapping_mul(0x51ed27)).shuffle(&mut order);
                    } else {
                        rng.shuffle(&mut order);
                    }
                    for (pi, ii) in order {
                        let Some(f) = &filters[pi] else { continue };
                        #[cfg(feature = "sync")]
                        let (vars, input) = if share_values {
                            (shared[pi].0.clone(), shared[pi].1[ii].clone())
                        } else {
                            (progs[pi].dec_vars(), progs[pi].dec_input(ii))
                        };
                        #[cfg(not(feature = "sync"))]
                        let (vars, input) = (progs[pi].dec_vars(), progs[pi].dec_input(ii));
                        let (got, overlapped) =
                            run_one(f, &vars, input, take, &mut rng, tid, level, Some(&same_active[pi]));
                        tickets.push(SEQ.fetch_add(1, Relaxed));
                        runs.fetch_add(1, Relaxed);
                        if overlapped {
                            overlapped_runs.fetch_add(1, Relaxed);
                        }
                        if got != expected[pi][ii] {
                            if mismatch_count.fetch_add(1, Relaxed) < 40 {
                                mismatches.lock().unwrap().push(json!({
                                    "prog": pi, "input": ii, "thread": tid, "rep": rep,
                                    "expected": clip(&expected[pi][ii]), "got": clip(&got)}));
                            }
                        }
                    }
                    ranks.push(rep_done[rep].fetch_add(1, Relaxed));
                }
                (ranks, tickets)
            })
            .expect("spawn");
        handles.push(h);
    }
    let mut compiled_during = 0u64;
    let mut compiler_panicked = false;
    if compile_during {
        // compile (and run) all programs, in another order, while the others execute
        let (progs, expected, mismatches, mismatch_count, compile_out) =
            (progs.clone(), expected.clone(), mismatches.clone(), mismatch_count.clone(), compile_out.clone());
        let barrier = barrier.clone();
        let h = std::thread::Builder::new()
            .stack_size(64 << 20)
            .spawn(move || {
                let mut n = 0u64;
                let mut rng = Rng(seed ^ 0xabcdef);
                barrier.wait();
                for rep in 0..reps.max(1) {
                    let mut order: Vec<usize> = (0..progs.len()).collect();
                    rng.shuffle(&mut order);
                    order.truncate(compile_limit);
                    for pi in order {
                        let p = &progs[pi];
                        let (f, o) = compile_outcome(p, core_defs);
                        n += 1;
                        if o != compile_out[pi] {
                            if mismatch_count.fetch_add(1, Relaxed) < 40 {
                                mismatches.lock().unwrap().push(json!({
                                    "prog": pi, "input": null, "thread": "compiler", "rep": rep,
                                    "expected": clip(&compile_out[pi]), "got": clip(&o)}));
                            }
                        }
                        if let Some(f) = f {
                            let vars = p.dec_vars();
                            for ii in 0..p.inputs.len() {
                                let got = run_one(&f, &vars, p.dec_input(ii), take, &mut rng, COMPILER, 1, None).0;
                                if got != expected[pi][ii] {
                                    if mismatch_count.fetch_add(1, Relaxed) < 40 {
                                        mismatches.lock().unwrap().push(json!({
                                            "prog": pi, "input": ii, "thread": "compiler", "rep": rep,
                                            "expected": clip(&expected[pi][ii]), "got": clip(&got)}));
                                    }
                                }
                            }
                        }
                    }
                }
                n
            })
            .expect("spawn");
        match h.join() {
            Ok(n) => compiled_during = n,
            Err(_) => compiler_panicked = true,
        }
    }
    let mut panicked = 0;
    let mut all_ranks: Vec<Vec<usize>> = Vec::new();
    let mut all_tickets: Vec<(u64, usize)> = Vec::new();
    for (tid, h) in handles.into_iter().enumerate() {
        match h.join() {
            Ok((ranks, tickets)) => {
                all_ranks.push(ranks);
                all_tickets.extend(tickets.into_iter().map(|t| (t, tid)));
            }
            Err(_) => panicked += 1,
        }
    }
    // completion orders: for each rep, the order in which the threads finished it
    let mut orders: BTreeSet<Vec<usize>> = BTreeSet::new();
    if panicked == 0 {
        for rep in 0..reps {
            let mut o: Vec<(usize, usize)> = all_ranks.iter().enumerate().map(|(tid, r)| (r[rep], tid)).collect();
            o.sort();
            orders.insert(o.into_iter().map(|(_, tid)| tid).collect());
        }
    }
    // global completion sequence: how often consecutive completions came from different threads
    all_tickets.sort();
    let completion_switches = all_tickets.windows(2).filter(|w| w[0].1 != w[1].1).count();

    // (4) isolated again, in reverse program order: nothing that ran in between left a trace
    let rev: Vec<usize> = (0..progs.len()).rev().collect();
    let post = if light {
        Vec::new()
    } else {
        baseline(&progs, &filters, take, &rev, true)
    };
    let mut post_mismatches = Vec::new();
    for (pi, row) in post.iter().enumerate() {
        for (ii, (a, b)) in row.iter().enumerate() {
            isolated_runs += 2;
            if *a != expected[pi][ii] || *b != expected[pi][ii] {
                let got = if *a != expected[pi][ii] { a } else { b };
                post_mismatches.push(json!({"prog": pi, "input": ii, "thread": "isolated-after",
                    "expected": clip(&expected[pi][ii]), "got": clip(got)}));
            }
        }
    }
    // values that were shared between the threads still are what they were
    #[allow(unused_mut)]
    let mut shared_changed: Vec<Value> = Vec::new();
    #[allow(unused_mut)]
    let mut shared_checked = 0u64;
    #[cfg(feature = "sync")]
    if share_values {
        for (pi, p) in progs.iter().enumerate() {
            for (vi, w) in p.vars.iter().enumerate() {
                shared_checked += 1;
                if dec(w).map(|v| enc(&v)).ok() != Some(enc(&shared[pi].0[vi])) {
                    shared_changed.push(json!({"prog": pi, "var": vi, "now": clip(&enc(&shared[pi].0[vi]).to_string())}));
                }
            }
            for (ii, w) in p.inputs.iter().enumerate() {
                shared_checked += 1;
                if dec(w).map(|v| enc(&v)).ok() != Some(enc(&shared[pi].1[ii])) {
                    shared_changed.push(json!({"prog": pi, "input": ii, "now": clip(&enc(&shared[pi].1[ii]).to_string())}));
                }
            }
        }
    }

    let mm = mismatches.lock().unwrap();
    // digest of the isolated outcomes (to compare builds / runs with each other)
    let expected_dump: Value = if req["dump_expected"].as_bool().unwrap_or(false) {
        json!(*expected)
    } else {
        Value::Null
    };
    let out = json!({
        "expected": expected_dump,
        "threads": threads, "reps": reps, "programs": progs.len(), "pairs": pairs.len(),
        "lockstep": lockstep, "jitter": level, "take": take, "light": light, "defs": if core_defs { "core" } else { "all" },
        "compiled": filters.iter().filter(|f| f.is_some()).count(),
        "compile_errors": compile_errors,
        "isolated_runs": isolated_runs, "isolated_panics": isolated_panics,
        "outcome_classes": outcome_classes,
        "runs": runs.load(Relaxed), "pulls": PULLS.load(Relaxed),
        "switches": SWITCHES.load(Relaxed),
        "overlapped_runs": overlapped_runs.load(Relaxed),
        "max_concurrent": MAX_ACTIVE.load(Relaxed),
        "completion_orders": orders.len(), "completion_switches": completion_switches,
        "mismatches": mismatch_count.load(Relaxed),
        "mismatch_samples": mm.iter().take(40).collect::<Vec<_>>(),
        "post_mismatches": post_mismatches.len(),
        "post_mismatch_samples": post_mismatches.iter().take(10).collect::<Vec<_>>(),
        "nondeterministic": nondet, "thread_panics": panicked, "compiler_panicked": compiler_panicked,
        "compiled_during": compiled_during,
        "shared_checked": shared_checked, "shared_changed": shared_changed,
        "sync_values": cfg!(feature = "sync"), "share_values": share_values,
    });
    // with several Miri seeds in one process, stdout lines of the seeds can interleave:
    // optionally append the summary to a file with a single write
    if let Some(p) = req["summary_path"].as_str() {
        use std::io::Write;
        if let Ok(mut f) = std::fs::OpenOptions::new().create(true).append(true).open(p) {
            let _ = f.write_all(format!("{out}\n").as_bytes());
        }
    }
    println!("{out}");
}
