//! Typed value codec between the Python drivers and the real `jaq_json::Val`.
//!
//! The encoding is independent of jaq's own JSON reader/printer and keeps every
//! representation distinction (`Int` / `BigInt` / `Float` / `Dec`, text / byte string,
//! insertion order of objects).
use jaq_json::{Map, Num, Val};
use serde_json::{json, Value};

fn hex(b: &[u8]) -> String {
    let mut s = String::with_capacity(b.len() * 2);
    for x in b {
        s.push_str(&format!("{x:02x}"));
    }
    s
}

fn unhex(s: &str) -> Result<Vec<u8>, String> {
    if s.len() % 2 != 0 {
        return Err("odd hex".into());
    }
    (0..s.len())
        .step_by(2)
        .map(|i| u8::from_str_radix(&s[i..i + 2], 16).map_err(|e| e.to_string()))
        .collect()
}

pub fn enc(v: &Val) -> Value {
    match v {
        Val::Null => Value::Null,
        Val::Bool(b) => Value::Bool(*b),
        Val::Num(Num::Int(i)) => json!({"i": i.to_string()}),
        Val::Num(Num::BigInt(i)) => json!({"I": i.to_string()}),
        Val::Num(Num::Float(f)) => json!({"f": format!("{:016x}", f.to_bits())}),
        Val::Num(Num::Dec(d)) => json!({"d": d.to_string()}),
        Val::TStr(b) => json!({"s": hex(b)}),
        Val::BStr(b) => json!({"b": hex(b)}),
        Val::Arr(a) => Value::Array(a.iter().map(enc).collect()),
        Val::Obj(o) => {
            let kvs: Vec<Value> = o.iter().map(|(k, v)| json!([enc(k), enc(v)])).collect();
            json!({"o": kvs})
        }
    }
}

pub fn dec(v: &Value) -> Result<Val, String> {
    Ok(match v {
        Value::Null => Val::Null,
        Value::Bool(b) => Val::Bool(*b),
        Value::Array(a) => a.iter().map(dec).collect::<Result<Val, _>>()?,
        Value::Object(o) => {
            let (k, x) = o.iter().next().ok_or("empty tag object")?;
            let s = || x.as_str().ok_or_else(|| format!("tag {k}: expected string"));
            match k.as_str() {
                "i" => Val::Num(Num::Int(s()?.parse::<isize>().map_err(|e| e.to_string())?)),
                "I" => {
                    let b: num_bigint::BigInt = s()?.parse().map_err(|_| "bad bigint")?;
                    Val::Num(Num::big_int(b))
                }
                "f" => {
                    let bits = u64::from_str_radix(s()?, 16).map_err(|e| e.to_string())?;
                    Val::Num(Num::Float(f64::from_bits(bits)))
                }
                "d" => Val::Num(Num::Dec(s()?.to_string().into())),
                "s" => Val::utf8_str(unhex(s()?)?),
                "b" => Val::byte_str(unhex(s()?)?),
                "o" => {
                    let kvs = x.as_array().ok_or("tag o: expected array")?;
                    let mut m = Map::default();
                    for kv in kvs {
                        let kv = kv.as_array().ok_or("tag o: expected pair")?;
                        if kv.len() != 2 {
                            return Err("tag o: expected pair".into());
                        }
                        m.insert(dec(&kv[0])?, dec(&kv[1])?);
                    }
                    Val::obj(m)
                }
                _ => return Err(format!("unknown tag {k}")),
            }
        }
        _ => return Err("bare number/string in typed value".into()),
    })
}
