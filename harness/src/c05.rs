//! C05 (panic monitor): `evalc` = compile once, run MANY inputs, answer in a compact, *streamed*
//! form. After every `chunk` cases one line `{"p":k0,"c":"<one code per case>","panics":[[k,msg,loc],..]}`
//! is written (and flushed), so that a client that sees the worker die knows which cases had
//! already finished; the final answer is `{"done":n}` (or `compile_error` / `compile_panic`).
//! Codes: e = ended, c = cut (take reached), x = catchable error, h = halt, i = internal exception,
//! P = panic. Every output (and every error value) is also rendered with jaq's own `Display`
//! (what the CLI does when it prints), inside the same catch_unwind.
use crate::codec::dec;
use crate::eval;
use jaq_all::data::{Data, DataKind, Filter, Runner};
use jaq_core::{Ctx, Vars};
use jaq_json::Val;
use jaq_std::input::RcIter;
use serde_json::{json, Value};
use std::io::Write;
use std::panic::{catch_unwind, AssertUnwindSafe};

fn run_one(filter: &Filter, vars: &[Val], input: Val, stream: &[Val], take: u64, render: bool) -> char {
    let inputs: Box<dyn Iterator<Item = Result<Val, String>>> =
        Box::new(stream.to_vec().into_iter().map(Ok::<Val, String>));
    let runner = Runner::default();
    let rc = RcIter::new(inputs);
    let data = Data {
        runner: &runner,
        lut: &filter.lut,
        inputs: &rc,
    };
    let ctx = Ctx::<DataKind>::new(&data, Vars::new(vars.iter().cloned()));
    let mut it = filter.id.run((ctx, input));
    let mut n = 0u64;
    let mut sink = 0usize;
    let code = loop {
        if n >= take {
            break 'c';
        }
        match it.next() {
            None => break 'e',
            Some(Ok(y)) => {
                if render {
                    sink = sink.wrapping_add(y.to_string().len());
                }
                n += 1;
            }
            Some(Err(exn)) => {
                break match exn.get_err() {
                    Ok(err) => {
                        if render {
                            sink = sink.wrapping_add(err.to_string().len());
                            sink = sink.wrapping_add(err.into_val().to_string().len());
                        }
                        'x'
                    }
                    Err(exn) => match exn.get_halt() {
                        Ok(_) => 'h',
                        Err(_) => 'i',
                    },
                };
            }
        }
    };
    drop(it);
    std::hint::black_box(sink);
    code
}

fn emit(v: &Value) {
    let stdout = std::io::stdout();
    let mut out = stdout.lock();
    let _ = writeln!(out, "{v}");
    let _ = out.flush();
}

pub fn evalc(req: &Value) -> Value {
    let prog = req["prog"].as_str().unwrap_or("");
    let empty = Vec::new();
    let mut names = Vec::new();
    let mut vals = Vec::new();
    for nv in req["vars"].as_array().unwrap_or(&empty) {
        names.push(nv[0].as_str().unwrap_or("").to_string());
        match dec(&nv[1]) {
            Ok(v) => vals.push(v),
            Err(e) => return json!({"harness_error": format!("var: {e}")}),
        }
    }
    let take = req["take"].as_u64().unwrap_or(8);
    let chunk = req["chunk"].as_u64().unwrap_or(16).max(1) as usize;
    let render = req["render"].as_bool().unwrap_or(true);
    let stream: Result<Vec<Val>, String> =
        req["stream"].as_array().unwrap_or(&empty).iter().map(dec).collect();
    let stream = match stream {
        Ok(s) => s,
        Err(e) => return json!({"harness_error": format!("stream: {e}")}),
    };
    let filter = match catch_unwind(AssertUnwindSafe(|| eval::compile(prog, &names))) {
        Ok(Ok(f)) => f,
        Ok(Err(report)) => return json!({"compile_error": report}),
        Err(_) => return json!({"compile_panic": crate::take_panic()}),
    };
    let cases = req["cases"].as_array().unwrap_or(&empty);
    // optional: a pool of values decoded once; cases are then arrays of indices into it
    let pool: Option<Vec<Val>> = match req["pool"].as_array() {
        Some(ws) => match ws.iter().map(dec).collect::<Result<Vec<Val>, String>>() {
            Ok(p) => Some(p),
            Err(e) => return json!({"harness_error": format!("pool: {e}")}),
        },
        None => None,
    };
    let id = req.get("id").cloned().unwrap_or(Value::Null);
    let mut k0 = 0usize;
    while k0 < cases.len() {
        let k1 = (k0 + chunk).min(cases.len());
        let mut codes = String::with_capacity(k1 - k0);
        let mut panics = Vec::new();
        for (k, case) in cases[k0..k1].iter().enumerate() {
            let decoded = match &pool {
                Some(p) => case
                    .as_array()
                    .and_then(|ix| {
                        ix.iter()
                            .map(|i| i.as_u64().and_then(|i| p.get(i as usize)).cloned())
                            .collect::<Option<Val>>()
                    })
                    .ok_or_else(|| "bad index tuple".to_string()),
                None => dec(case),
            };
            let input = match decoded {
                Ok(v) => v,
                Err(_) => {
                    codes.push('?');
                    continue;
                }
            };
            match catch_unwind(AssertUnwindSafe(|| run_one(&filter, &vals, input, &stream, take, render))) {
                Ok(c) => codes.push(c),
                Err(_) => {
                    codes.push('P');
                    let p = crate::take_panic();
                    panics.push(json!([k0 + k, p["msg"], p["loc"]]));
                }
            }
        }
        emit(&json!({"id": id, "p": k0, "c": codes, "panics": panics}));
        k0 = k1;
    }
    json!({"done": cases.len()})
}
