//! `parse`: run the real lexer + parser and serialise the resulting tree.
use jaq_core::load::lex::StrPart;
use jaq_core::load::parse::{BinaryOp, Def, Pattern, Term};
use jaq_core::load::{self, Lexer, Parser};
use jaq_core::path::{Opt, Part};
use serde_json::{json, Value};

pub fn term(t: &Term<&str>) -> Value {
    let opt = |o: &Option<Box<Term<&str>>>| o.as_ref().map_or(Value::Null, |t| term(t));
    match t {
        Term::Id => json!(["id"]),
        Term::Recurse => json!(["rec"]),
        Term::Num(s) => json!(["num", s]),
        Term::Str(fmt, parts) => {
            let parts: Vec<Value> = parts
                .iter()
                .map(|p| match p {
                    StrPart::Str(s) => json!(["s", s]),
                    StrPart::Term(t) => json!(["t", term(t)]),
                    StrPart::Char(c) => json!(["c", c.to_string()]),
                })
                .collect();
            json!(["str", fmt, parts])
        }
        Term::Arr(a) => json!(["arr", opt(a)]),
        Term::Obj(kvs) => {
            let kvs: Vec<Value> = kvs
                .iter()
                .map(|(k, v)| json!([term(k), v.as_ref().map_or(Value::Null, term)]))
                .collect();
            json!(["obj", kvs])
        }
        Term::Neg(t) => json!(["neg", term(t)]),
        Term::BinOp(l, op, r) => {
            let op = match op {
                BinaryOp::Pipe(None) => json!(["pipe", null]),
                BinaryOp::Pipe(Some(p)) => json!(["pipe", pattern(p)]),
                BinaryOp::Comma => json!("comma"),
                BinaryOp::Alt => json!("alt"),
                BinaryOp::Or => json!("or"),
                BinaryOp::And => json!("and"),
                BinaryOp::Math(m) => json!(["math", m.as_str()]),
                BinaryOp::Cmp(c) => json!(["cmp", c.as_str()]),
                BinaryOp::Assign => json!("assign"),
                BinaryOp::Update => json!("update"),
                BinaryOp::UpdateMath(m) => json!(["updmath", m.as_str()]),
                BinaryOp::UpdateAlt => json!("updalt"),
            };
            json!(["bin", op, term(l), term(r)])
        }
        Term::Label(x, t) => json!(["label", x, term(t)]),
        Term::Break(x) => json!(["break", x]),
        Term::Fold(name, xs, pat, args) => {
            let args: Vec<Value> = args.iter().map(term).collect();
            json!(["fold", name, term(xs), pattern(pat), args])
        }
        Term::TryCatch(t, c) => json!(["try", term(t), opt(c)]),
        Term::IfThenElse(its, e) => {
            let its: Vec<Value> = its.iter().map(|(i, t)| json!([term(i), term(t)])).collect();
            json!(["if", its, opt(e)])
        }
        Term::Def(defs, t) => {
            let defs: Vec<Value> = defs.iter().map(def).collect();
            json!(["def", defs, term(t)])
        }
        Term::Call(name, args) => {
            let args: Vec<Value> = args.iter().map(term).collect();
            json!(["call", name, args])
        }
        Term::Var(x) => json!(["var", x]),
        Term::Path(t, path) => {
            let parts: Vec<Value> = path
                .0
                .iter()
                .map(|(p, o)| {
                    let p = match p {
                        Part::Index(i) => json!(["index", term(i)]),
                        Part::Range(a, b) => json!([
                            "range",
                            a.as_ref().map_or(Value::Null, term),
                            b.as_ref().map_or(Value::Null, term)
                        ]),
                    };
                    json!([p, matches!(o, Opt::Optional)])
                })
                .collect();
            json!(["path", term(t), parts])
        }
    }
}

pub fn pattern(p: &Pattern<&str>) -> Value {
    match p {
        Pattern::Var(x) => json!(["pvar", x]),
        Pattern::Arr(ps) => json!(["parr", ps.iter().map(pattern).collect::<Vec<_>>()]),
        Pattern::Obj(kps) => {
            let kps: Vec<Value> = kps.iter().map(|(k, p)| json!([term(k), pattern(p)])).collect();
            json!(["pobj", kps])
        }
    }
}

pub fn def(d: &Def<&str, Term<&str>>) -> Value {
    json!([d.name, d.args, term(&d.body)])
}

/// kind: "term" | "defs"
pub fn parse(code: &str, kind: &str) -> Value {
    let tokens = match Lexer::new(code).lex() {
        Ok(t) => t,
        Err(errs) => {
            let errs: Vec<Value> = errs
                .iter()
                .map(|(exp, found)| {
                    let sp = load::span(code, found);
                    json!([exp.as_str(), sp.start, sp.end])
                })
                .collect();
            return json!({"lex_errors": errs});
        }
    };
    let conv = |errs: Vec<load::parse::TError<&str>>| -> Value {
        let errs: Vec<Value> = errs
            .iter()
            .map(|(exp, found)| {
                let found = load::lex::Token::opt_as_str(*found, code);
                let sp = load::span(code, found);
                json!([exp.as_str(), sp.start, sp.end])
            })
            .collect();
        json!({"parse_errors": errs})
    };
    match kind {
        "defs" => match Parser::new(&tokens).parse(|p| p.defs()) {
            Ok(defs) => json!({"defs": defs.iter().map(def).collect::<Vec<_>>()}),
            Err(errs) => conv(errs),
        },
        _ => match Parser::new(&tokens).parse(|p| p.term()) {
            Ok(t) => json!({"term": term(&t)}),
            Err(errs) => conv(errs),
        },
    }
}
