//! `eval`: compile a program with the real compiler and run it with the real interpreter,
//! pulling outputs one at a time and recording what a client can observe.
use crate::codec::{dec, enc};
use jaq_all::data::{Data, DataKind, Filter, Runner};
use jaq_all::load::FileReportsDisp;
use jaq_core::box_iter::box_once;
use jaq_core::native::{v, Fun};
use jaq_core::{Ctx, Error, Exn, Native, Vars};
use jaq_json::{Map, Val};
use jaq_std::input::RcIter;
use serde_json::{json, Value};
use std::cell::RefCell;
use std::collections::HashMap;

#[derive(Default)]
pub struct State {
    /// effect log: ids of markers in firing order
    pub fx: Vec<Value>,
    pub ticks: u64,
    pub pulled: u64,
    /// bomb id -> mode ("error" | "halt" | "input"); absent = inert
    pub arm: HashMap<i64, String>,
    /// (stack address, live heap bytes) at every `probe`
    pub probes: Vec<(usize, i64)>,
    pub probe_cap: usize,
    pub probe_count: u64,
}

thread_local! {
    pub static ST: RefCell<State> = RefCell::new(State::default());
}

fn as_i64(v: &Val) -> i64 {
    match v {
        Val::Num(n) => n.as_isize().map_or(-1, |i| i as i64),
        _ => -1,
    }
}

fn log_fx(id: &Val) {
    let e = enc(id);
    ST.with(|s| s.borrow_mut().fx.push(e));
}

type D = DataKind;

fn bomb_action<'a>(id: &Val, cv: &jaq_core::Cv<'a, D>) -> Option<Result<Val, Exn<'a, Val>>> {
    let mode = ST.with(|s| s.borrow().arm.get(&as_i64(id)).cloned());
    match mode.as_deref() {
        Some("error") => {
            let mut m = Map::default();
            m.insert(Val::from("bomb".to_string()), id.clone());
            Some(Err(Exn::from(Error::new(Val::obj(m)))))
        }
        Some("halt") => Some(Err(Exn::halt(as_i64(id) as i32))),
        Some("input") => {
            use jaq_std::input::HasInputs;
            let mut inputs = cv.0.data().inputs();
            match inputs.next() {
                Some(Ok(_)) | None => None,
                Some(Err(e)) => Some(Err(Exn::from(Error::str(e)))),
            }
        }
        _ => None,
    }
}

/// Probe natives: ordinary natives built with the public extension API.
pub fn probes() -> Vec<Fun<D>> {
    let mark = Native::<D>::new(|mut cv| {
        let id = cv.0.pop_var();
        log_fx(&id);
        box_once(Ok(cv.1))
    })
    .with_paths(|mut cv| {
        let id = cv.0.pop_var();
        log_fx(&id);
        box_once(Ok(cv.1))
    })
    .with_update(|mut cv, f| {
        let id = cv.0.pop_var();
        log_fx(&id);
        f(cv.1)
    });
    let tick = Native::<D>::new(|cv| {
        ST.with(|s| s.borrow_mut().ticks += 1);
        box_once(Ok(cv.1))
    })
    .with_paths(|cv| {
        ST.with(|s| s.borrow_mut().ticks += 1);
        box_once(Ok(cv.1))
    })
    .with_update(|cv, f| {
        ST.with(|s| s.borrow_mut().ticks += 1);
        f(cv.1)
    });
    let bomb = Native::<D>::new(|mut cv| {
        let id = cv.0.pop_var();
        log_fx(&id);
        match bomb_action(&id, &cv) {
            Some(r) => box_once(r),
            None => box_once(Ok(cv.1)),
        }
    });
    let probe = Native::<D>::new(|cv| {
        let local = 0u8;
        let addr = &local as *const u8 as usize;
        let live = crate::alloc::live();
        ST.with(|s| {
            let mut s = s.borrow_mut();
            s.probe_count += 1;
            if s.probes.len() < s.probe_cap {
                s.probes.push((addr, live));
            }
        });
        box_once(Ok(cv.1))
    })
    .with_paths(|cv| {
        let local = 0u8;
        let addr = &local as *const u8 as usize;
        let live = crate::alloc::live();
        ST.with(|s| {
            let mut s = s.borrow_mut();
            s.probe_count += 1;
            if s.probes.len() < s.probe_cap {
                s.probes.push((addr, live));
            }
        });
        box_once(Ok(cv.1))
    })
    .with_update(|cv, f| {
        let local = 0u8;
        let addr = &local as *const u8 as usize;
        let live = crate::alloc::live();
        ST.with(|s| {
            let mut s = s.borrow_mut();
            s.probe_count += 1;
            if s.probes.len() < s.probe_cap {
                s.probes.push((addr, live));
            }
        });
        f(cv.1)
    });
    vec![
        ("mark", v(1), mark),
        ("tick", v(0), tick),
        ("bomb", v(1), bomb),
        ("probe", v(0), probe),
    ]
}

pub fn all_funs() -> impl Iterator<Item = Fun<D>> {
    jaq_all::data::funs().chain(probes())
}

pub fn render_reports(errs: &[jaq_all::load::FileReports]) -> (String, Vec<(usize, usize)>, usize) {
    let mut text = String::new();
    let mut spans = Vec::new();
    let mut code_len = 0;
    for fr in errs {
        use std::fmt::Write;
        let _ = write!(text, "{}", FileReportsDisp::new(fr));
        // also render with colours, to exercise that path
        let paint: jaq_all::load::Paint = |f, c, d| match c {
            Some(color) => color.ansi(f, d),
            None => d.fmt(f),
        };
        let mut coloured = String::new();
        let _ = write!(coloured, "{}", FileReportsDisp::new(fr).with_paint(paint));
        code_len = fr.0.code.len();
        for r in &fr.1 {
            // spans are only reachable through the Debug form: `(a..b, [`
            let dbg = format!("{r:?}");
            let bytes = dbg.as_bytes();
            let mut i = 0;
            while i < bytes.len() {
                if bytes[i] == b'(' && i + 1 < bytes.len() && bytes[i + 1].is_ascii_digit() {
                    let rest = &dbg[i + 1..];
                    if let Some(dots) = rest.find("..") {
                        let a = &rest[..dots];
                        let after = &rest[dots + 2..];
                        let blen = after.bytes().take_while(|c| c.is_ascii_digit()).count();
                        if a.bytes().all(|c| c.is_ascii_digit()) && blen > 0 && after[blen..].starts_with(", [") {
                            if let (Ok(a), Ok(b)) = (a.parse(), after[..blen].parse()) {
                                spans.push((a, b));
                            }
                        }
                    }
                }
                i += 1;
            }
        }
    }
    (text, spans, code_len)
}

pub fn compile(prog: &str, var_names: &[String]) -> Result<Filter, Value> {
    jaq_all::compile_with(prog, jaq_all::defs(), all_funs(), var_names).map_err(|errs| {
        let (text, spans, code_len) = render_reports(&errs);
        let code = errs.first().map(|fr| fr.0.code.clone()).unwrap_or_default();
        let ok_spans = spans.iter().all(|(a, b)| {
            a <= b && *b <= code_len && code.is_char_boundary(*a) && code.is_char_boundary(*b)
        });
        json!({"report": text, "spans": spans, "code_len": code_len, "spans_ok": ok_spans})
    })
}

/// Run one case; never panics itself (the caller wraps it in catch_unwind anyway).
pub fn run_case(filter: &Filter, vars: &[Val], case: &Value, default_take: u64) -> Value {
    let input = match dec(&case["input"]) {
        Ok(v) => v,
        Err(e) => return json!({"harness_error": format!("input: {e}")}),
    };
    let empty = Vec::new();
    let stream: Result<Vec<Val>, String> =
        case["inputs"].as_array().unwrap_or(&empty).iter().map(dec).collect();
    let stream = match stream {
        Ok(s) => s,
        Err(e) => return json!({"harness_error": format!("inputs: {e}")}),
    };
    let take = case["take"].as_u64().unwrap_or(default_take);
    // discard: count outputs but keep only the last one (long loops must not make the
    // harness itself retain memory proportional to the number of outputs)
    let discard = case["discard"].as_bool().unwrap_or(false);
    let repeat_inputs = case["repeat_inputs"].as_bool().unwrap_or(false);
    ST.with(|s| {
        let mut s = s.borrow_mut();
        s.fx.clear();
        s.ticks = 0;
        s.pulled = 0;
        s.arm.clear();
        s.probes.clear();
        s.probe_count = 0;
        if let Some(arm) = case["arm"].as_object() {
            for (k, v) in arm {
                if let (Ok(k), Some(m)) = (k.parse(), v.as_str()) {
                    s.arm.insert(k, m.to_string());
                }
            }
        }
    });

    let counting = |x: Val| {
        ST.with(|s| s.borrow_mut().pulled += 1);
        Ok::<Val, String>(x)
    };
    let inputs: Box<dyn Iterator<Item = Result<Val, String>>> = if repeat_inputs {
        Box::new(stream.into_iter().cycle().map(counting))
    } else {
        Box::new(stream.into_iter().map(counting))
    };
    let runner = Runner::default();
    let rc = RcIter::new(inputs);
    let data = Data {
        runner: &runner,
        lut: &filter.lut,
        inputs: &rc,
    };
    let ctx = Ctx::<D>::new(&data, Vars::new(vars.iter().cloned()));
    let mut outs = Vec::new();
    let mut it = filter.id.run((ctx, input));
    let snapshot = || ST.with(|s| {
        let s = s.borrow();
        (s.fx.len(), s.pulled, s.ticks)
    });
    let end;
    let mut n = 0u64;
    loop {
        if n >= take {
            end = json!(["cut"]);
            break;
        }
        match it.next() {
            None => {
                end = json!(["end"]);
                break;
            }
            Some(Ok(y)) => {
                let (fx, pulled, ticks) = snapshot();
                if discard {
                    outs.clear();
                }
                outs.push(json!([enc(&y), fx, pulled, ticks]));
                n += 1;
            }
            Some(Err(exn)) => {
                end = match exn.get_err() {
                    Ok(err) => {
                        let dbg = format!("{err:?}");
                        let builtin_parts = dbg.starts_with("Error(Str(");
                        let msg = err.to_string();
                        json!(["error", builtin_parts, enc(&err.into_val()), msg])
                    }
                    Err(exn) => match exn.get_halt() {
                        Ok(code) => json!(["halt", code]),
                        Err(exn) => {
                            let d = format!("{exn:?}");
                            let d: String = d.chars().take(200).collect();
                            json!(["internal", d])
                        }
                    },
                };
                break;
            }
        }
    }
    drop(it);
    let (fx, pulled, ticks) = ST.with(|s| {
        let s = s.borrow();
        (s.fx.clone(), s.pulled, s.ticks)
    });
    json!({"outs": outs, "end": end, "fx": fx, "pulled": pulled, "ticks": ticks, "n_outs": n})
}
