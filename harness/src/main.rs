//! jaqmon: a thin driver exposing the real jaq crates (built from /repo's working tree) to
//! the monitors in /verif. It contains no model of jaq. JSON lines in, JSON lines out.
mod alloc;
mod c05;
mod codec;
mod eval;
mod extra;
mod parse;
mod threads;

use serde_json::{json, Value};
use std::io::{BufRead, Write};
use std::panic::{catch_unwind, AssertUnwindSafe};
use std::sync::Mutex;

#[global_allocator]
static GLOBAL: alloc::Counting = alloc::Counting;

pub static LAST_PANIC: Mutex<Option<(String, String)>> = Mutex::new(None);

pub fn install_panic_hook() {
    std::panic::set_hook(Box::new(|info| {
        let loc = info
            .location()
            .map(|l| format!("{}:{}", l.file(), l.line()))
            .unwrap_or_default();
        let msg = if let Some(s) = info.payload().downcast_ref::<&str>() {
            s.to_string()
        } else if let Some(s) = info.payload().downcast_ref::<String>() {
            s.clone()
        } else {
            "<non-string panic>".to_string()
        };
        if let Ok(mut g) = LAST_PANIC.lock() {
            *g = Some((msg, loc));
        }
    }));
}

pub fn take_panic() -> Value {
    let p = LAST_PANIC.lock().ok().and_then(|mut g| g.take());
    match p {
        Some((msg, loc)) => json!({"msg": msg, "loc": loc}),
        None => json!({"msg": "?", "loc": "?"}),
    }
}

/// Run `f`, turning a panic into `{"panic": {...}}`.
pub fn guarded(f: impl FnOnce() -> Value) -> Value {
    match catch_unwind(AssertUnwindSafe(f)) {
        Ok(v) => v,
        Err(_) => json!({"panic": take_panic()}),
    }
}

fn op_eval(req: &Value) -> Value {
    let prog = req["prog"].as_str().unwrap_or("");
    let empty = Vec::new();
    let vars = req["vars"].as_array().unwrap_or(&empty);
    let mut names = Vec::new();
    let mut vals = Vec::new();
    for nv in vars {
        names.push(nv[0].as_str().unwrap_or("").to_string());
        match codec::dec(&nv[1]) {
            Ok(v) => vals.push(v),
            Err(e) => return json!({"harness_error": format!("var: {e}")}),
        }
    }
    let take = req["take"].as_u64().unwrap_or(64);
    let filter = match catch_unwind(AssertUnwindSafe(|| eval::compile(prog, &names))) {
        Ok(Ok(f)) => f,
        Ok(Err(report)) => return json!({"compile_error": report}),
        Err(_) => return json!({"compile_panic": take_panic()}),
    };
    let cases = req["cases"].as_array().unwrap_or(&empty);
    let results: Vec<Value> = cases
        .iter()
        .map(|case| guarded(|| extra::run_case_full(&filter, &vals, case, take)))
        .collect();
    json!({"results": results})
}

fn handle(req: &Value) -> Value {
    match req["op"].as_str().unwrap_or("") {
        "eval" => op_eval(req),
        "parse" => {
            let code = req["code"].as_str().unwrap_or("");
            let kind = req["kind"].as_str().unwrap_or("term");
            guarded(|| parse::parse(code, kind))
        }
        "natives" => guarded(extra::natives),
        "terms" => guarded(|| extra::terms(req)),
        "fmt" => guarded(|| extra::fmt(req)),
        "mods" => guarded(|| extra::mods(req)),
        "load_report" => guarded(|| extra::load_report(req)),
        "evalc" => c05::evalc(req),
        "ping" => json!({"pong": true}),
        other => json!({"harness_error": format!("unknown op {other}")}),
    }
}

fn serve() {
    let stdin = std::io::stdin();
    let stdout = std::io::stdout();
    for line in stdin.lock().lines() {
        let line = match line {
            Ok(l) => l,
            Err(_) => break,
        };
        if line.trim().is_empty() {
            continue;
        }
        let resp = match serde_json::from_str::<Value>(&line) {
            Ok(req) => {
                let mut r = handle(&req);
                if let (Some(o), Some(id)) = (r.as_object_mut(), req.get("id")) {
                    o.insert("id".into(), id.clone());
                }
                r
            }
            Err(e) => json!({"harness_error": format!("bad request: {e}")}),
        };
        let mut out = stdout.lock();
        let _ = writeln!(out, "{resp}");
        let _ = out.flush();
    }
}

fn main() {
    install_panic_hook();
    let args: Vec<String> = std::env::args().collect();
    let mode = args.get(1).map(|s| s.as_str()).unwrap_or("serve");
    match mode {
        "serve" => {
            // big stack: deep (but legitimate) recursion of the interpreter is resource
            // exhaustion, not a property violation; keep it rare
            let stack = std::env::var("JAQMON_STACK_MB")
                .ok()
                .and_then(|s| s.parse::<usize>().ok())
                .unwrap_or(512);
            let t = std::thread::Builder::new()
                .stack_size(stack << 20)
                .spawn(serve)
                .expect("spawn");
            let _ = t.join();
        }
        "phase" => extra::phase(&args[2..]),
        "threads" => extra::threads(&args[2..]),
        other => {
            eprintln!("unknown mode {other}");
            std::process::exit(2);
        }
    }
}
