//! Counting allocator: live bytes and number of allocation events.
//! It never remembers addresses, so it hides nothing from other tools.
use std::alloc::{GlobalAlloc, Layout, System};
use std::sync::atomic::{AtomicI64, AtomicU64, Ordering::Relaxed};

pub struct Counting;

pub static LIVE: AtomicI64 = AtomicI64::new(0);
pub static EVENTS: AtomicU64 = AtomicU64::new(0);

unsafe impl GlobalAlloc for Counting {
    unsafe fn alloc(&self, l: Layout) -> *mut u8 {
        LIVE.fetch_add(l.size() as i64, Relaxed);
        EVENTS.fetch_add(1, Relaxed);
        System.alloc(l)
    }
    unsafe fn dealloc(&self, p: *mut u8, l: Layout) {
        LIVE.fetch_sub(l.size() as i64, Relaxed);
        System.dealloc(p, l)
    }
    unsafe fn alloc_zeroed(&self, l: Layout) -> *mut u8 {
        LIVE.fetch_add(l.size() as i64, Relaxed);
        EVENTS.fetch_add(1, Relaxed);
        System.alloc_zeroed(l)
    }
    unsafe fn realloc(&self, p: *mut u8, l: Layout, new: usize) -> *mut u8 {
        LIVE.fetch_add(new as i64 - l.size() as i64, Relaxed);
        EVENTS.fetch_add(1, Relaxed);
        System.realloc(p, l, new)
    }
}

pub fn live() -> i64 {
    LIVE.load(Relaxed)
}

pub fn events() -> u64 {
    EVENTS.load(Relaxed)
}
