//! Further modes: natives listing, term table dump, format readers/writers, in-memory module
//! loading, syscall-phase marker runs, threads.
use crate::codec::{dec, enc};
use crate::eval;
use jaq_all::data::Filter;
use jaq_core::load::{import, Arena, File, Import, Loader};
use jaq_core::{Bind, Compiler};
use jaq_fmts::Format;
use jaq_json::Val;
use serde_json::{json, Value};
use std::cell::RefCell;
use std::collections::BTreeMap;

fn unhex(s: &str) -> Vec<u8> {
    (0..s.len() / 2)
        .map(|i| u8::from_str_radix(&s[2 * i..2 * i + 2], 16).unwrap_or(0))
        .collect()
}

fn hex(b: &[u8]) -> String {
    b.iter().map(|x| format!("{x:02x}")).collect()
}

/// run_case + summary of `probe` samples (C04)
pub fn run_case_full(filter: &Filter, vars: &[Val], case: &Value, take: u64) -> Value {
    let cap = case["probe_cap"].as_u64().unwrap_or(0) as usize;
    eval::ST.with(|s| {
        let mut s = s.borrow_mut();
        s.probe_cap = cap;
        if cap > 0 {
            s.probes = Vec::with_capacity(cap);
        }
    });
    let base_live = crate::alloc::live();
    let mut r = eval::run_case(filter, vars, case, take);
    if cap > 0 {
        let summary = eval::ST.with(|s| {
            let s = s.borrow();
            let n = s.probes.len();
            let count = s.probe_count;
            if n < 20 {
                return json!({"count": count, "stored": n});
            }
            let w = |a: usize, b: usize| {
                let sl = &s.probes[a..b];
                let min_addr = sl.iter().map(|p| p.0).min().unwrap_or(0);
                let max_addr = sl.iter().map(|p| p.0).max().unwrap_or(0);
                let max_live = sl.iter().map(|p| p.1).max().unwrap_or(0);
                let min_live = sl.iter().map(|p| p.1).min().unwrap_or(0);
                json!({"from": a, "to": b, "min_addr": min_addr, "max_addr": max_addr,
                       "min_live": min_live - base_live, "max_live": max_live - base_live})
            };
            let step = std::cmp::max(1, n / 32);
            let samples: Vec<Value> = (0..n)
                .step_by(step)
                .map(|i| json!([i, s.probes[0].0 as i64 - s.probes[i].0 as i64, s.probes[i].1 - base_live]))
                .collect();
            json!({
                "count": count, "stored": n,
                "w1": w(n / 10, n / 2), "w2": w(n / 2, n),
                "first_addr": s.probes[0].0,
                "live_half": s.probes[n / 2].1 - base_live,
                "live_end": s.probes[n - 1].1 - base_live,
                "samples": samples,
            })
        });
        if let Some(o) = r.as_object_mut() {
            o.insert("probes".into(), summary);
        }
        eval::ST.with(|s| {
            let mut s = s.borrow_mut();
            s.probes = Vec::new();
            s.probe_cap = 0;
        });
    }
    r
}

fn bind_kinds(args: &[Bind]) -> Vec<&'static str> {
    args.iter()
        .map(|b| match b {
            Bind::Var(()) => "var",
            Bind::Fun(()) => "fun",
        })
        .collect()
}

/// Every native and every prelude definition of the current tree.
pub fn natives() -> Value {
    let funs: Vec<Value> = jaq_all::data::funs()
        .map(|(name, args, _)| json!([name, bind_kinds(&args)]))
        .collect();
    let defs: Vec<Value> = jaq_all::defs()
        .map(|d| json!([d.name, d.args]))
        .collect();
    json!({"natives": funs, "defs": defs})
}

/// Compile with dummy natives and return the Debug form of the term table
/// (the only public window onto `CallType`s, skips and variable indices).
pub fn terms(req: &Value) -> Value {
    let prog = req["prog"].as_str().unwrap_or("");
    let with_prelude = req["prelude"].as_bool().unwrap_or(true);
    let empty = Vec::new();
    let names: Vec<String> = req["vars"]
        .as_array()
        .unwrap_or(&empty)
        .iter()
        .map(|v| format!("${}", v.as_str().unwrap_or("")))
        .collect();
    let arena = Arena::default();
    let defs: Vec<_> = if with_prelude { jaq_all::defs().collect() } else { Vec::new() };
    let loader = Loader::new(defs);
    let modules = match loader.load(&arena, File { path: (), code: prog }) {
        Ok(m) => m,
        Err(_) => return json!({"error": "load"}),
    };
    let funs = eval::all_funs().map(|(n, a, _)| (n, a, ()));
    let filter = jaq_core::compile::Compiler::<&str, ()>::default()
        .with_funs(funs)
        .with_global_vars(names.iter().map(|v| &**v))
        .compile(modules);
    match filter {
        Ok(f) => {
            let d = format!("{f:?}");
            let count = |pat: &str| d.matches(pat).count();
            json!({
                "inline": count(", Inline)"), "throw": count(", Throw)"),
                "catch_one": count(", CatchOne)"), "catch_all": count(", CatchAll)"),
                "debug": if req["full"].as_bool().unwrap_or(false) { Value::String(d) } else { Value::Null },
            })
        }
        Err(_) => json!({"error": "compile"}),
    }
}

fn pp_of(req: &Value) -> jaq_json::write::Pp {
    let mut pp = jaq_json::write::Pp::default();
    if let Some(i) = req["indent"].as_str() {
        pp.indent = Some(i.to_string());
    }
    pp.sort_keys = req["sort_keys"].as_bool().unwrap_or(false);
    pp.sep_space = req["sep_space"].as_bool().unwrap_or(false);
    if req["color"].as_bool().unwrap_or(false) {
        pp.styles = jaq_json::write::Styles::ansi();
    }
    pp
}

/// Direct calls of the format readers and writers on byte strings.
pub fn fmt(req: &Value) -> Value {
    let format = match Format::parse(req["format"].as_str().unwrap_or("json")) {
        Some(f) => f,
        None => return json!({"harness_error": "format"}),
    };
    match req["dir"].as_str().unwrap_or("") {
        "read" => {
            let bytes = bytes::Bytes::from(unhex(req["bytes"].as_str().unwrap_or("")));
            let slurp = req["slurp"].as_bool().unwrap_or(false);
            let limit = req["limit"].as_u64().unwrap_or(10_000) as usize;
            let s = match jaq_fmts::read::bytes_str(format, &bytes) {
                Ok(s) => s,
                Err(e) => return json!({"vals": [], "error": e.to_string()}),
            };
            let mut vals = Vec::new();
            let mut error = Value::Null;
            let via_read = req["via_read"].as_bool().unwrap_or(false);
            let iter = if via_read {
                jaq_fmts::read::read(format, &bytes[..], s, slurp)
            } else {
                jaq_fmts::read::parse(format, &bytes, s, slurp)
            };
            for r in iter.take(limit) {
                match r {
                    Ok(v) => vals.push(enc(&v)),
                    Err(e) => {
                        error = Value::String(e.to_string());
                        break;
                    }
                }
            }
            json!({"vals": vals, "error": error})
        }
        "write" => {
            let val = match dec(&req["val"]) {
                Ok(v) => v,
                Err(e) => return json!({"harness_error": e}),
            };
            let writer = jaq_fmts::write::Writer {
                format,
                pp: pp_of(req),
                join: req["join"].as_bool().unwrap_or(false),
            };
            let mut buf = Vec::new();
            match jaq_fmts::write::write(&mut buf, &writer, &val) {
                Ok(()) => json!({"bytes": hex(&buf)}),
                Err(e) => json!({"error": e.to_string(), "partial": hex(&buf)}),
            }
        }
        _ => json!({"harness_error": "dir"}),
    }
}

/// Load a main program over an in-memory module file system with a counting reader,
/// compile, run. Paths are plain strings: an import of "p" reads file "p.jq" (code) or
/// "p.json" (data); a missing file is a load error.
pub fn mods(req: &Value) -> Value {
    let main = req["main"].as_str().unwrap_or("");
    let empty_obj = serde_json::Map::new();
    let files: BTreeMap<String, String> = req["files"]
        .as_object()
        .unwrap_or(&empty_obj)
        .iter()
        .map(|(k, v)| (k.clone(), v.as_str().unwrap_or("").to_string()))
        .collect();
    let data = req["data"].as_object().unwrap_or(&empty_obj);
    let reads: RefCell<Vec<String>> = RefCell::new(Vec::new());
    let max_reads = req["max_reads"].as_u64().unwrap_or(10_000) as usize;
    let empty = Vec::new();
    let var_names: Vec<String> = req["vars"]
        .as_array()
        .unwrap_or(&empty)
        .iter()
        .map(|nv| format!("${}", nv[0].as_str().unwrap_or("")))
        .collect();
    let mut var_vals: Vec<Val> = Vec::new();
    for nv in req["vars"].as_array().unwrap_or(&empty) {
        match dec(&nv[1]) {
            Ok(v) => var_vals.push(v),
            Err(e) => return json!({"harness_error": e}),
        }
    }

    let arena = Arena::default();
    let read = |imp: Import<&str, String>| -> Result<File<String, String>, String> {
        let key = format!("{}.jq", imp.path);
        reads.borrow_mut().push(key.clone());
        if reads.borrow().len() > max_reads {
            return Err("read budget exceeded (loader is looping)".into());
        }
        match files.get(&key) {
            Some(code) => Ok(File { code: code.clone(), path: key }),
            None => Err("file not found".into()),
        }
    };
    let loader = Loader::new(jaq_all::defs()).with_read(read);
    let modules = match loader.load(&arena, File { path: "<main>".to_string(), code: main }) {
        Ok(m) => m,
        Err(errs) => {
            let kinds: Vec<String> = errs
                .iter()
                .map(|(f, e)| format!("{}: {:?}", f.path, e).chars().take(300).collect())
                .collect();
            let reports = jaq_all::load::load_errors(errs);
            let text: String = reports
                .iter()
                .map(|fr| jaq_all::load::FileReportsDisp::new(fr).to_string())
                .collect();
            return json!({"load_error": kinds, "report": text, "reads": *reads.borrow()});
        }
    };
    let mut data_reads = Vec::new();
    let imported = import(&modules, |imp| {
        let key = format!("{}.json", imp.path);
        data_reads.push(key.clone());
        let arr = data.get(&key).ok_or_else(|| "file not found".to_string())?;
        var_vals.push(dec(arr)?);
        Ok(())
    });
    if let Err(errs) = imported {
        let kinds: Vec<String> = errs.iter().map(|(f, e)| format!("{}: {:?}", f.path, e)).collect();
        return json!({"load_error": kinds, "reads": *reads.borrow()});
    }
    let filter = Compiler::default()
        .with_funs(eval::all_funs())
        .with_global_vars(var_names.iter().map(|v| &**v))
        .compile(modules);
    let filter = match filter {
        Ok(f) => f,
        Err(errs) => {
            let what: Vec<Value> = errs
                .iter()
                .map(|(f, es)| {
                    let es: Vec<Value> = es.iter().map(|(s, u)| json!([s, u.as_str()])).collect();
                    json!([f.path, es])
                })
                .collect();
            return json!({"compile_error": what, "reads": *reads.borrow()});
        }
    };
    let take = req["take"].as_u64().unwrap_or(64);
    let cases = req["cases"].as_array().unwrap_or(&empty);
    let results: Vec<Value> = cases
        .iter()
        .map(|case| crate::guarded(|| eval::run_case(&filter, &var_vals, case, take)))
        .collect();
    json!({"results": results, "reads": *reads.borrow(), "data_reads": data_reads})
}

pub fn load_report(_req: &Value) -> Value {
    json!({"harness_error": "unused"})
}

/// `jaqmon phase <requests.jsonl> [out]`: for each request, load+compile, then issue the marker
/// syscall `statx("/VERIF/EXEC-PHASE/<id>")`, then for each case k `statx("/VERIF/CASE/<id>/<k>")`
/// and execute it, then `statx("/VERIF/EXEC-DONE/<id>")`; `/VERIF/ALL-DONE` at the very end.
/// Everything the process does between a CASE marker and the next marker is done by jaq's
/// execution of that (program, input). Meant to run under strace (C06). The work runs in one
/// thread with a big stack, created before the first marker.
pub fn phase(args: &[String]) {
    let args: Vec<String> = args.to_vec();
    let stack = std::env::var("JAQMON_STACK_MB")
        .ok()
        .and_then(|s| s.parse::<usize>().ok())
        .unwrap_or(256);
    let t = std::thread::Builder::new()
        .stack_size(stack << 20)
        .spawn(move || phase_run(&args))
        .expect("spawn");
    let _ = t.join();
}

fn phase_marker(s: &str) {
    let _ = std::path::Path::new(s).exists();
}

fn phase_run(args: &[String]) {
    let path = args.first().cloned().unwrap_or_default();
    let text = std::fs::read_to_string(&path).unwrap_or_default();
    let reqs: Vec<Value> = text
        .lines()
        .filter(|l| !l.trim().is_empty())
        .filter_map(|l| serde_json::from_str(l).ok())
        .collect();
    // everything is read; from here on only marker syscalls and whatever jaq itself does
    let out_path = args.get(1).cloned();
    let mut results = Vec::new();
    for req in &reqs {
        let id = req["id"].as_u64().unwrap_or(0);
        let prog = req["prog"].as_str().unwrap_or("");
        let empty = Vec::new();
        let mut names = Vec::new();
        let mut vals = Vec::new();
        for nv in req["vars"].as_array().unwrap_or(&empty) {
            names.push(nv[0].as_str().unwrap_or("").to_string());
            vals.push(dec(&nv[1]).unwrap_or(Val::Null));
        }
        let filter = match std::panic::catch_unwind(|| eval::compile(prog, &names)) {
            Ok(Ok(f)) => f,
            Ok(Err(_)) => {
                results.push(json!({"id": id, "compile_error": true}));
                continue;
            }
            Err(_) => {
                results.push(json!({"id": id, "compile_panic": true}));
                continue;
            }
        };
        phase_marker(&format!("/VERIF/EXEC-PHASE/{id}"));
        let take = req["take"].as_u64().unwrap_or(64);
        let full = req["full"].as_bool().unwrap_or(false);
        let mut rs: Vec<Value> = Vec::new();
        let mut ends: Vec<Value> = Vec::new();
        for (k, case) in req["cases"].as_array().unwrap_or(&empty).iter().enumerate() {
            phase_marker(&format!("/VERIF/CASE/{id}/{k}"));
            let r = crate::guarded(|| eval::run_case(&filter, &vals, case, take));
            let end = if r.get("panic").is_some() {
                json!("panic")
            } else {
                r["end"][0].clone()
            };
            ends.push(json!([end, r["outs"].as_array().map_or(0, |o| o.len())]));
            if full {
                rs.push(r);
            }
        }
        phase_marker(&format!("/VERIF/EXEC-DONE/{id}"));
        if full {
            results.push(json!({"id": id, "ends": ends, "results": rs}));
        } else {
            results.push(json!({"id": id, "ends": ends}));
        }
    }
    phase_marker("/VERIF/ALL-DONE");
    let text: String = results.iter().map(|r| format!("{r}\n")).collect();
    match out_path {
        Some(p) => {
            let _ = std::fs::write(p, text);
        }
        None => print!("{text}"),
    }
}

/// `jaqmon threads <requests.json>`: see threads.rs
pub fn threads(args: &[String]) {
    crate::threads::main(args)
}
