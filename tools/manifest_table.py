"""Source of MANIFEST.json (tools/gen_manifest.py). One entry per claimed property."""
HOOK_COMMITS = []
PENDING = "check not built yet in this round (the design in DESIGN.md applies; runtime monitoring does apply to it)"
NOT_APPLICABLE = {("C%02d" % i): PENDING for i in range(1, 21)}
CHECKS = {
    "C17": {
        "text": "Held on the executions observed: 3.2*10^3 (quick) to 10^5 (thorough) generated command lines (random subsets, spellings and positions of the documented input/output/variable/exit-status options x filters composed from identity/iteration/empty/error/halt/halt_error/input/inputs/limit/first/$vars/$ARGS/$ENV/input_filename families with stderr markers x 0-6 input values over stdin or 1-3 files: valid, empty, truncated, missing; JSON, raw, raw0, other formats by extension/--from), run with the real jaq binary and compared byte for byte (stdout and stderr in one pipe = order of writes, error-message presence, exit status) with a model of the CLI contract written from cli.dj; a sample is cross-checked against the strace write log.",
        "design_ref": "DESIGN.md §4 C17, Appendix E",
        "note": "filter semantics per input value incl. how many inputs were pulled before each output come from the real interpreter via jaqmon (not re-modelled); non-JSON --to bodies come from the library (C14); error-message text not modelled; -n with several files modelled per file; -j modelled as implying raw output",
        "technique": "runtime monitoring: trace monitor (single-pipe stdout+stderr trace, exit status) vs an executable model of the CLI contract, interpreter in the loop",
    },
    "C18": {
        "category": "fault_enumeration",
        "text": "Exhaustive per scenario: every system call the real `jaq -i` process issues after opening its first input is one kill point (strace inject SIGKILL before the call executes, effect verified from the run's own trace), plus errno injections at every write/rename/chmod/open/stat/mmap/close/getcwd/unlink call and filter-level failures (error after k outputs, halt, parse error at value k, missing file, writer error), each itself kill-enumerated; after every run the directory must satisfy: every target exactly old or exactly complete-new, pattern new* old*, failing and later files old, success => all new with mode bits preserved and no stray file, bystanders untouched. 12 scenarios in quick, 200 more generated ones in thorough.",
        "design_ref": "DESIGN.md §4 C18",
        "note": "trusts strace 6.1 ptrace injection (each run checked from its own log for which call was hit and left unfinished), the kernel on ext4+tmpfs, a Python directory snapshot; expected new content = jaq's own stdout without -i; no durability / power-loss claim",
        "technique": "runtime fault injection on the production binary (every kill point and errno per scenario) with a state-comparison oracle",
    },
    "C01": {
        "text": "Held on the executions observed: tens of thousands (quick) to ~10^6 (thorough) generated core-language programs (scope-/arity-aware grammar: nested defs with $x and filter parameters, closures, shadowing, bounded recursion, label/break through closures, patterns, reduce/foreach, try/catch, //, paths, updates, interpolation, multi-valued object keys/values) rendered by an independent printer, run by the real lexer+parser+compiler+interpreter in two build flavours and compared output by output, up to and including the first error/halt, with jqref, a lazy definitional interpreter written from the manual; plus every `code --> output` example of the manual of the current tree (vs documented output, vs jqref, and re-run under 8 semantics-preserving binder wrappers). No proof; bounded by program size.",
        "design_ref": "DESIGN.md §4 C01, §2.2, Appendix A",
        "note": "trusts jqref as a reading of the manual (calibrated on every run against the manual's ~570 examples; a disagreement there makes the run a broken check, not a verdict); corners the manual leaves open are skipped (Appendix B)",
        "technique": "runtime monitoring: reference-model monitor (definitional interpreter vs real execution) + metamorphic binder wrappers",
    },
    "C02": {
        "text": "Held on the executions observed: path expressions composed to depth 2 from 26 path atoms (., .., .[], .[i], slices, ?-variants, multi-valued indices, first/last/limit/skip, select, recurse, getpath, empty, error) by | , // if as def reduce foreach label try, over all JSON trees of <= 3 nodes plus sampled (quick) / 400 per expression (thorough) trees of <= 4-5 nodes: [p], path(p), getpath(path(p)), p |= u for 7 update filters (0/1/2 outputs, error), = += //= compared output by output with jqref's row-by-row implementation of the two tables of advanced.dj; plus ~2500 in-language equations (every row of the update table, iter_upd/index_upd/slice_upd verbatim from the manual, derived filters against path(), value-constructing expressions and unsupported left-hand sides must fail) with both sides run by the same binary.",
        "design_ref": "DESIGN.md §4 C02",
        "note": "trusts jqref.paths/update as a reading of advanced.dj; the manual's displayed *_upd definitions are used only on the domain where they agree with the manual's prose (triage log, DESIGN §8); key order after deleting updates not compared",
        "technique": "runtime monitoring: reference-model monitor for path()/update tables + in-language metamorphic equations, exhaustive small scope",
    },
    "C03": {
        "text": "Held on the executions observed: generated stream producers (34 producer kinds: commas, pipes, bindings, if, //, try, reduce/foreach, recursive and infinite definitions, repeat, recurse, zero-step range, limit/first/skip, filter parameters and closures, label/break, path indices, updates, interpolation, objects, inputs/input over finite and endless input iterators) carry effect markers; jqref records, for every marker firing, how many outputs precede it; the real interpreter is then pulled output by output (library iterator, every cut at once) and run under 12 prefix consumers x cuts x arming modes (markers behind the cut armed to raise an error, halt, or consume an input): effect log, inputs pulled and ticks at the moment output k is delivered must not exceed what the semantics allows, and consumer results must be unchanged by arming. Plus the command line fed an endless stdin must finish after bounded consumption.",
        "design_ref": "DESIGN.md §4 C03",
        "note": "only 'not more than the left-to-right semantics allows before output k' is demanded; divergence is observed through markers/ticks/bytes consumed, never through wall-clock; trusts jqref's evaluation order",
        "technique": "runtime monitoring: effect-trace monitor with inert and armed marker natives, checked against a reference trace",
    },
    "C09": {
        "text": "Held on the executions observed: whole arithmetic matrices (+ - * / %, unary -) over pools of typed operands straddling every machine/big-integer boundary compared with Python integers / IEEE doubles (value, integer-vs-float kind, bit-exact floats); the manual's non-numeric operator equations incl. key order; 56 integer consumers evaluated under three representations of the same integer (machine, injected big, computed n + 2^70 - 2^70) plus halt(n) at the CLI; both build profiles. Bounded by the pools; no proof.",
        "design_ref": "DESIGN.md §4 C09",
        "note": "trusts vlib.values arithmetic as a reading of corelang §Numbers/§Binary, Python's int->float rounding, and the typed codec (wire tags echoed and checked)",
        "technique": "runtime monitoring: reference-model monitor on operator matrices + metamorphic representation substitution",
    },
    "C10": {
        "text": "Held on the executions observed: complete enumeration (thorough; seeded slice in quick) of the stated small scope - all arrays/strings of length <= 4 over 1-4-byte characters incl. one invalid byte, the same as byte strings, all objects with <= 3 entries over arbitrary-value keys x 27 positions / 729 bound pairs incl. +-2^63, +-10^20, big representation and wrongly typed - for 60+ read and update operations, each compared with a Python position model and with the manual's iter_upd/index_upd/slice_upd (verbatim from the current tree) evaluated by the same binary; random larger containers; both profiles.",
        "design_ref": "DESIGN.md §4 C10",
        "note": "trusts vlib.values (reads) and vlib.c10_model (updates); invalid UTF-8 text judged only for identities, whole-string slices and no panic; key order after deleting updates compared as a set",
        "technique": "runtime monitoring: exhaustive small-scope reference-model monitor + differential against the manual's jq definitions",
    },
    "C11": {
        "text": "Held on the executions observed: the 17 obligations E01-E17 (every defining equation of the manual for limit/skip/first/last/nth/isempty/any/all/add/range/repeat/recurse/../while/until/select/empty/error/reduce/foreach) instantiated with generated finite streams containing errors and multiplicities, counts around 0 and the stream length and beyond 2^63, numeric/string/array range bounds, 0/1/2-output updates and variable/array/object patterns; both sides evaluated by the real interpreter on the same input and compared as streams with the position and payload of the first error.",
        "design_ref": "DESIGN.md §4 C11, Appendix D.1",
        "note": "both sides of an equation run on the same binary (a defect common to both sides is invisible; C01 covers the core constructs against an independent reference); infinite generators compared under limit",
        "technique": "runtime monitoring: metamorphic equation monitor over generated stream arguments",
    },
    "C12": {
        "text": "Held on the executions observed: the 29 obligations K01-K29 (documented equations and invariants of sort/group/unique/min/max, keys/entries, indices/index/contains/has/in, flatten/transpose/combinations/bsearch, walk/del/delpaths/paths/pick, map/map_values/join/split, trimstr/startswith/endswith, tonumber/toboolean/abs/floor/round/ceil, type/is*/selectors, reverse/trim/utf8bytelength/tobytes) on generated arrays/objects with duplicates, ties, mixed types, empties, non-string keys and every number representation; equations by the same binary, relational invariants (stability, maximal runs, extremal element, completeness of indices, insertion point) recomputed in Python with the manual's order. Names of the current tree's standard library without any obligation are listed in the evidence.",
        "design_ref": "DESIGN.md §4 C12, Appendix D.2",
        "note": "judged on documented domains only; trusts vlib.values' order; the manual's verify/flattens definitions are copied into the programs",
        "technique": "runtime monitoring: metamorphic / invariant monitor over the documented equations of the collection built-ins",
    },
    "C14": {
        "text": "Held on the executions observed, except the listed findings: per format (YAML, CBOR, TOML, CSV, TSV), every atom of a fixed pool of reserved words / indicators / number-like spellings (with blank, sign and separator affixes) as root, element, key and member value, boundary numbers, byte strings, non-string keys, shapes just outside the domain (must be rejected) and seeded random trees are written and read back through the filters, the library entry points used by --to/--from (compact and indented) and, for a sample, the real CLI, which must all agree; jaq's output is re-read by independent readers (an RFC 8949 decoder in the driver, tomllib, csv, expat; json for CLI output). XML: generated documents and single-operator mutations of the repository's XHTML examples accepted by expat must satisfy fromxml|toxml|fromxml == fromxml. Witnesses are minimised into canonical keys.",
        "design_ref": "DESIGN.md §4 C14",
        "note": "trusts vlib.values.eq, the typed codec, expat as well-formedness oracle, tomllib (TOML 1.0), Python csv; YAML has NO independent reader in this sandbox (judged by jaq's own reader only); TSV number-like strings, CSV []/[null], invalid UTF-8 text, TOML integers beyond 64 bits observed, not judged",
        "technique": "runtime monitoring: round-trip monitor over three consumer paths (filters, library, CLI) + independent readers",
    },
    "C15": {
        "text": "Held on the executions observed: syntax trees rendered by an independent printer that encodes the manual's precedence table (minimal / full / random redundant parentheses; random whitespace, newlines, CRLF and comments with the odd/even backslash rule between tokens) are parsed by the real lexer+parser and must come back structurally identical: exhaustively every ordered pair of the 24 infix operators and the `as` binding in both groupings (thorough: every triple in 5 groupings), random trees over every node kind (patterns, all object-key forms, interpolation and @formats, label/def/reduce/foreach/try/if-elif, postfix ? and path suffixes under prefix minus) and generated programs; 63 documented shorthands are compared with their expansions by outputs; 86 texts outside the grammar must be rejected at load/compile time; for mutated texts that are accepted, the token sequence of the re-rendered parse must equal the token sequence of the text (nothing dropped, reordered or invented).",
        "design_ref": "DESIGN.md §4 C15, Appendix D.3",
        "note": "trusts the printer (jqref/ast.py) as encoding of the documented table and of the right-extension of as/def/label; faithfulness is judged on names, variables, numbers, string texts, keywords and operators (grouping tokens and sugar normalised)",
        "technique": "runtime monitoring: print/parse round-trip monitor with an independent printer, exhaustive over operator pairs/triples",
    },
    "C16": {
        "text": "Held on the executions observed: generated acyclic module graphs (up to 6 modules; diamonds, the same module by several routes and aliases, name/arity clashes, mixed include/import, data imports shadowing global variables, calls from under local binders, recursion) are run through the real loader+compiler+interpreter with a counting in-memory reader and compared with the single inlined program computed by an independent resolver of the documented visibility rules; programs referencing what the rules forbid must be rejected at compile time; cyclic graphs must be reported as errors within edges+1 reads; modules are read at most once per import edge. At the command line the module/data file is placed in subsets of the candidate directories (search metadata relative to the importing file / working directory, -L paths, ~ via HOME, $ORIGIN via a copied binary, defaults) and the documented first candidate must win; absolute paths are refused; given extensions are kept.",
        "design_ref": "DESIGN.md §4 C16",
        "note": "trusts the resolver in checks/c16.py as a reading of the documented rules (includes are not treated as transitive); follows the property (not docs/advanced.dj) for the order local-before-global",
        "technique": "runtime monitoring: reference resolver (inlining) vs real module loader + filesystem placement scenarios",
    },
    "C04": {
        "text": "Held on the executions observed: generated nests of tail-recursive definitions (self / parent / grand-parent / earlier-sibling / nested-sibling calls through every documented tail position, counter in `.` or in a variable argument, variable and filter arguments passed on unchanged, run for values, for paths, under first/limit/label) and 17 built-in loops, each run for N = 20 000 iterations with a probe native sampling native stack depth and live heap at every iteration: stack growth between the iteration windows [N/10,N/2) and [N/2,N] <= 4 KiB and live-heap growth between N/2 and N <= 16 KiB; then N in {1e5, 2e5, 1e6} inside a thread with a fixed 2 MiB stack must complete. Negative controls (non-tail recursion) must show growth, else the run is a broken check.",
        "design_ref": "DESIGN.md §4 C04",
        "note": "stack depth = address of a local inside a harness native, heap = live bytes of a counting global allocator in the helper process; verdicts on logical quantities only (watchdog/ OOM = inconclusive); update mode is not claimed by the property",
        "technique": "runtime monitoring: resource-slope monitor (stack address and live-heap probes per iteration) + fixed-stack end-to-end runs",
    },
    "C19": {
        "text": "Held on the schedules observed: generated programs (129 families of natives with caches/lazies and core-language constructs + random bounded expressions) compiled once and executed from 2/4/16/64 threads x R repetitions in an Rc build and an Arc (jaq-json/sync) build, every concurrent output stream compared with the isolated one (computed twice; recomputed afterwards in reverse order), values shared between threads compared with their original form, compile-while-running compared with the original compilation; the same helper under ThreadSanitizer (std instrumented, -Zbuild-std) and a tiny workload under Miri with 4 (quick) / 16 (thorough) scheduler seeds; Filter: Send+Sync and Val: Send+Sync (sync) asserted at compile time. Bounded by the schedules the OS and Miri produced; no proof.",
        "design_ref": "DESIGN.md §4 C19",
        "note": "trusts TSan's and Miri's memory-model detection and llvm-symbolizer function names for frame classification; sanitizer runs use the sync feature only; the Miri workload uses jaq-core's prelude only; a crash is a violation only if reproducible and absent single-threaded; a detector that could not run is reported as inconclusive",
        "technique": "runtime monitoring: concurrent-vs-isolated output comparison under schedule perturbation + dynamic race detectors (ThreadSanitizer, Miri)",
    },
    "C20": {
        "text": "Held on the executions observed: an independent proleptic-Gregorian calendar in the driver (cross-checked against Python datetime at start-up) vs gmtime / mktime / todate / fromdate / strftime / strptime / localtime / strflocaltime of the real interpreter on typed epochs (machine int, big int, double, literal; edge set incl. range limits +-1 s / +-1 us, leap days, century boundaries, negative times, +-2^31, +-2^53, +-2^63, +-2^63/10^6 and neighbours; random; fractional with 1-9 digits), 20 complete strftime formats round-tripped through strptime|mktime, broken-down arrays with edge field values, independently generated RFC 3339 texts with offsets and fractions; out-of-range, non-finite, non-numeric and malformed inputs must be errors; both build profiles (overflow = panic / silent wrap).",
        "design_ref": "DESIGN.md §4 C20",
        "note": "trusts the driver's 30-line calendar (datetime as second opinion for years 1..9999), the typed codec, the reading of 'to the microsecond' as < 1 us + 2 ulp + 1 ns; TZ=UTC pinned; years +-9999 observed, not judged",
        "technique": "runtime monitoring: reference-model monitor (independent calendar) over batched typed inputs",
    },
    "C06": {
        "text": "Held on the executions observed: per quick run ~40k (thorough ~355k) (program, input) execution phases, delimited by marker system calls of the helper and recorded by strace -f, covering all natives and prelude definitions of the current tree x 26 path/URL/command-like values (as input, as each argument, as literals, in path/update/interpolation contexts), ~54 adversarial documents + mutations through every decoder (XML DOCTYPE/entities/PI/XInclude, YAML tags/aliases/merge keys, CBOR tags, TOML, CSV/TSV), the manual's examples, time filters under five TZ settings; plus 388 (thorough 1219) traced whole runs of the real binary incl. named-file, TZ and --in-place cases: no forbidden system call (write/create opens, reads outside the allow-list, rename/link/unlink/chmod..., network, exec/fork) and no change of canary files (content/mtime/inode/atime) or directory listings. The recorder is self-tested on every run against a deliberately misbehaving process; `jaq -n repl` is the positive control.",
        "design_ref": "DESIGN.md §4 C06",
        "note": "trusts strace -f completeness for the traced classes; the helper's marker statx calls enclose exactly one execution; 'uses a zone filter' is decided by program text; runtime noise restricted to read-only /proc,/sys,/dev,.so opens learned from control runs of `.`; I/O through an fd opened before the phase is judged only by its reads/writes",
        "technique": "runtime monitoring: system-call trace policy automaton (strace) over marker-delimited execution phases + canary files as second observation",
    },
    "C08": {
        "text": "Held on the executions observed: whole comparison matrices over pools of typed values (every number representation of equal values, representation boundaries, text/byte strings, objects in different insertion orders) computed by the real interpreter, compared with the manual's order and checked model-free for trichotomy, antisymmetry and transitivity; sort/unique/group_by/min/max/bsearch/array-minus checked against the same order; model-equal values substituted for each other in 20 lookup/dedup contexts. Bounded by the pools; no proof.",
        "design_ref": "DESIGN.md §4 C08",
        "note": "trusts vlib.values.cmp as reading of the manual's §Ordering; typed injection of objects goes through jaq's own map",
        "technique": "runtime monitoring: reference-model monitor over comparison matrices + metamorphic substitution of equal keys",
    },
}
