"""Source of MANIFEST.json (tools/gen_manifest.py). One entry per claimed property."""
HOOK_COMMITS = []
PENDING = "check not built yet in this round (the design in DESIGN.md applies; runtime monitoring does apply to it)"
NOT_APPLICABLE = {("C%02d" % i): PENDING for i in range(1, 21)}
CHECKS = {
    "C08": {
        "text": "Held on the executions observed: whole comparison matrices over pools of typed values (every number representation of equal values, representation boundaries, text/byte strings, objects in different insertion orders) computed by the real interpreter, compared with the manual's order and checked model-free for trichotomy, antisymmetry and transitivity; sort/unique/group_by/min/max/bsearch/array-minus checked against the same order; model-equal values substituted for each other in 20 lookup/dedup contexts. Bounded by the pools; no proof.",
        "design_ref": "DESIGN.md §4 C08",
        "note": "trusts vlib.values.cmp as reading of the manual's §Ordering; typed injection of objects goes through jaq's own map",
        "technique": "runtime monitoring: reference-model monitor over comparison matrices + metamorphic substitution of equal keys",
    },
}
