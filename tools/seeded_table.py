#!/usr/bin/env python3
"""Rewrites the table between <!-- seeded-table:begin --> and <!-- seeded-table:end --> in DESIGN.md from
seeded/*/meta.json and seeded/RESULTS.jsonl (written by tools/seeded_matrix.sh), and records in every
seeded/<id>/meta.json what was run ("ran") and what it showed ("caught_by")."""
import glob
import json
import os
import re

ROOT = os.path.dirname(os.path.dirname(os.path.abspath(__file__)))
STRENGTHENED = json.load(open(os.path.join(ROOT, "seeded", "strengthened.json")))


def main():
    res = {}
    p = os.path.join(ROOT, "seeded", "RESULTS.jsonl")
    if os.path.exists(p):
        for line in open(p):
            r = json.loads(line)
            res.setdefault(r["seeded"], []).append(r)
    rows = []
    for d in sorted(glob.glob(os.path.join(ROOT, "seeded", "C*-*"))):
        name = os.path.basename(d)
        meta = json.load(open(os.path.join(d, "meta.json")))
        rs = res.get(name, [])
        caught = [r for r in rs if r["exit"] == 1 and r["violations"] > 0]
        missed = [r for r in rs if r["exit"] == 0]
        meta["confirmation"] = ("tools/confirm_seeded.sh %s: demo.sh exits 0 on a scratch checkout of HEAD; patch applies; "
                                "`cargo test --workspace --no-fail-fast --offline` passes with it (382 passed, 0 failed); "
                                "demo.sh exits non-zero with it" % ("seeded/" + name))
        meta["ran"] = ["tools/eval_seeded.sh seeded/%s %s %s (scratch copies of /repo HEAD %s + patch and of /verif)"
                       % (name, r["check"], r["args"], r["repo_head"]) for r in rs]
        meta["caught_by"] = [{"check": r["check"], "violations": r["violations"], "first_keys": r["keys"][:3]} for r in caught]
        meta["missed_by"] = [r["check"] for r in missed]
        if name in STRENGTHENED:
            meta["first_missed_then_strengthened"] = STRENGTHENED[name]
        json.dump(meta, open(os.path.join(d, "meta.json"), "w"), indent=1, ensure_ascii=False)
        what = re.sub(r"\s+", " ", meta.get("what", ""))
        what = what.split(". ")[0][:170]
        files = ", ".join(os.path.basename(f) for f in meta.get("files", []))
        c = "; ".join("%s (%d keys, e.g. `%s`)" % (r["check"], r["violations"], (r["keys"] or ["?"])[0][:70].replace("|", "\\|")) for r in caught) or "-"
        m = ", ".join(meta["missed_by"]) or "-"
        note = STRENGTHENED.get(name, "")
        rows.append("| %s | %s | %s | %s | %s | %s |" % (name, files, what.replace("|", "\\|"), c, m, note))
    table = ["| change | file(s) | what it does | caught by (quick tier) | not caught by | needed strengthening first |", "|---|---|---|---|---|---|"] + rows
    dp = os.path.join(ROOT, "DESIGN.md")
    s = open(dp).read()
    b, e = "<!-- seeded-table:begin -->", "<!-- seeded-table:end -->"
    i, j = s.index(b) + len(b), s.index(e)
    s = s[:i] + "\n" + "\n".join(table) + "\n" + s[j:]
    open(dp, "w").write(s)
    print("rows:", len(rows), "with results:", sum(1 for r in rows if "keys" in r))


if __name__ == "__main__":
    main()
