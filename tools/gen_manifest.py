#!/usr/bin/env python3
"""Regenerates /verif/MANIFEST.json from the table below (and validates it)."""
import json, os, sys
HERE = os.path.dirname(os.path.dirname(os.path.abspath(__file__)))
sys.path.insert(0, HERE)
from tools.manifest_table import CHECKS, NOT_APPLICABLE, HOOK_COMMITS

ALL = ["C%02d" % i for i in range(1, 21)]
checks = []
for pid in ALL:
    c = CHECKS.get(pid)
    if not c:
        continue
    checks.append({
        "property_id": pid,
        "quick_cmd": f"./check {pid} --tier quick",
        "thorough_cmd": f"./check {pid} --tier thorough",
        "evidence_file": f"/verif/evidence/{pid}.json",
        "replay_cmd_template": f"./check {pid} --replay {{path}}",
        "engine": c.get("engine", "jaqmon+python"),
        "level_claimed": {"category": c.get("category", "exploration"), "text": c["text"], "design_ref": c["design_ref"]},
        "level_note": c["note"],
        "technique": c["technique"],
    })
na = [{"property_id": p, "reason": NOT_APPLICABLE[p]} for p in ALL if p not in CHECKS]
m = {
    "version": 1,
    "setup_cmd": "python3 vlib/build.py jaqmon release cli cli_release && python3 -c \"from vlib import build; build.jaqmon('release', features=('sync',))\" && python3 -m vlib.c19_build tsan miri",
    "hooks": {
        "guard": "--cfg jaq_verif",
        "enable": "RUSTFLAGS='--cfg jaq_verif' (set by vlib/build.py for every build of /repo's crates); no source hook is needed so far: all observations are taken at the client API, process, system-call and allocator boundaries",
        "baseline_off_cmd": "cd /repo && cargo test --workspace --no-fail-fast --offline",
        "source_commits": HOOK_COMMITS,
        "add_only": True,
    },
    "engines": [
        {"name": "jaqmon+python", "path": "/verif/harness", "serves_properties": sorted(CHECKS),
         "kind_free_text": "Rust helper linking /repo's crates (typed value codec, probe natives, pull-by-pull evaluation, panic capture, counting allocator) driven by Python monitors with reference models"},
    ],
    "checks": checks,
    "not_applicable": na,
    "notes": "Runtime monitoring only. Every check rebuilds jaqmon / the jaq CLI from /repo's working tree (cargo, offline, incremental) before it runs. Known findings: /verif/known_findings.json.",
}
json.dump(m, open(os.path.join(HERE, "MANIFEST.json"), "w"), indent=1)
try:
    import jsonschema
    jsonschema.validate(m, json.load(open("/root/.vp/MANIFEST.schema.json")))
    print("MANIFEST.json valid;", len(checks), "checks,", len(na), "not_applicable")
except ImportError:
    print("jsonschema not available; not validated")
