#!/bin/sh
# usage: tools/seeded_matrix.sh [parallelism]   -- runs every seeded change against its property's check
# (plus the cross pairs below) and rewrites seeded/RESULTS.jsonl. A run stops after 6 distinct violation keys
# (VERIF_STOP_AFTER): the question is only whether, and as what, the change is seen.
cd "$(dirname "$0")/.." || exit 2
P="${1:-3}"
out="$PWD/seeded/RESULTS.jsonl"; : > "$out.tmp"
{
  for d in seeded/C*-*/; do echo "${d%/}"; done
  # cross pairs: a change that another property's check also observes
  echo "seeded/C03-2 C17"; echo "seeded/C17-2 C03"; echo "seeded/C06-2 C18"; echo "seeded/C13-1 C05"; echo "seeded/C05-2 C09"
} | VERIF_STOP_AFTER="${VERIF_STOP_AFTER:-6}" SEEDED_RESULTS="$out.tmp" xargs -P "$P" -L 1 tools/eval_seeded.sh
sort "$out.tmp" > "$out"; rm -f "$out.tmp"
