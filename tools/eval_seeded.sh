#!/bin/sh
# usage: tools/eval_seeded.sh <seeded dir> [CHECK-ID] [check args...]
# Runs the property's own check (or CHECK-ID) against HEAD + the seeded change in scratch copies and
# prints a one-line verdict plus the first violation keys.
dir="$1"; name="$(basename "$dir")"; id="${2:-${name%%-*}}"; [ $# -ge 2 ] && shift 2 || shift 1
[ $# -eq 0 ] && set -- --tier quick
log="$(mktemp /tmp/eval-$name-$id-XXXX.log)"
"$(dirname "$0")/with_mutant.sh" "$dir/patch.diff" "$id" "$@" > "$log" 2>&1
code=$(grep -o 'MUTANT-EXIT=[0-9]*' "$log" | tail -1)
n=$(grep -c '^VIOLATION' "$log")
echo "SEEDED $name check=$id $code violations=$n"
grep '^VIOLATION' "$log" | sed 's/.*key=/   key=/' | cut -c1-200 | head -4
grep -E '^\[C[0-9]+\]' "$log" | tail -1
rm -f "$log"
