#!/bin/sh
# usage: tools/eval_seeded.sh <seeded dir> [CHECK-ID] [check args...]
# Runs the property's own check (or CHECK-ID) against HEAD + the seeded change in scratch copies and
# prints a one-line verdict plus the first violation keys. With SEEDED_RESULTS=<file> a JSON line
# {"seeded","check","exit","violations","keys","summary","repo_head","args"} is appended to <file>.
dir="$1"; name="$(basename "$dir")"; id="${2:-${name%%-*}}"; [ $# -ge 2 ] && shift 2 || shift 1
[ $# -eq 0 ] && set -- --tier quick
log="$(mktemp /tmp/eval-$name-$id-XXXX.log)"
"$(dirname "$0")/with_mutant.sh" "$dir/patch.diff" "$id" "$@" > "$log" 2>&1
code=$(grep -o 'MUTANT-EXIT=[0-9]*' "$log" | tail -1)
n=$(grep -c '^VIOLATION' "$log")
echo "SEEDED $name check=$id $code violations=$n"
grep '^VIOLATION' "$log" | sed 's/.*key=/   key=/' | cut -c1-200 | head -4
grep -E '^\[C[0-9]+\]' "$log" | tail -1
if [ -n "$SEEDED_RESULTS" ]; then
  python3 - "$log" "$name" "$id" "$*" >> "$SEEDED_RESULTS" <<'PY'
import json, re, subprocess, sys
log, name, cid, args = sys.argv[1:5]
text = open(log, errors="replace").read()
keys = re.findall(r"^VIOLATION .*?key=(.*)$", text, re.M)
m = re.findall(r"MUTANT-EXIT=(\d+)", text)
summ = re.findall(r"^\[C\d+\].*$", text, re.M)
head = subprocess.run(["git", "-C", "/repo", "rev-parse", "--short", "HEAD"], capture_output=True, text=True).stdout.strip()
print(json.dumps({"seeded": name, "check": cid, "exit": int(m[-1]) if m else None, "violations": len(keys),
                  "keys": [k[:160] for k in keys[:6]], "summary": summ[-1] if summ else None, "repo_head": head, "args": args}))
PY
fi
rm -f "$log"
