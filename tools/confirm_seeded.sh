#!/bin/sh
# usage: tools/confirm_seeded.sh <dir with patch.diff + demo.sh> [--skip-suite]
# Confirms a seeded change independently in a scratch checkout of /repo HEAD:
#   demo passes without the change; the change applies and compiles; the existing test suite passes
#   with it; the demo fails with it. Prints CONFIRMED / REJECTED and the evidence; removes the scratch.
dir="$(realpath "$1")"; skip="$2"
d="$(mktemp -d /tmp/jaq-seedchk-XXXXXX)"
trap 'rm -rf "$d"' EXIT INT TERM
mkdir -p "$d/repo"
git -C /repo archive HEAD | tar -x -C "$d/repo"
cd "$d/repo" || exit 3
export CARGO_TARGET_DIR="$d/target" CARGO_NET_OFFLINE=true
cp "$dir/demo.sh" ./seeded-demo.sh
sh ./seeded-demo.sh > "$d/demo0.log" 2>&1; r0=$?
echo "demo without change: exit $r0"
git apply --whitespace=nowarn "$dir/patch.diff" 2> "$d/apply.log" || { echo "REJECTED: patch does not apply on HEAD"; cat "$d/apply.log"; exit 1; }
if [ "$skip" != "--skip-suite" ]; then
  cargo test --workspace --no-fail-fast --offline > "$d/suite.log" 2>&1; rs=$?
  passed=$(grep -E '^test result:' "$d/suite.log" | awk '{s+=$4} END {print s}')
  failed=$(grep -E '^test result:' "$d/suite.log" | awk '{s+=$6} END {print s}')
  echo "suite with change: exit $rs passed=$passed failed=$failed"
else rs=0; fi
sh ./seeded-demo.sh > "$d/demo1.log" 2>&1; r1=$?
echo "demo with change: exit $r1"; tail -5 "$d/demo1.log"
if [ $r0 -eq 0 ] && [ $rs -eq 0 ] && [ $r1 -ne 0 ]; then echo CONFIRMED; exit 0; else echo REJECTED; [ $r0 -ne 0 ] && tail -5 "$d/demo0.log"; [ $rs -ne 0 ] && grep -E 'FAILED|failed' "$d/suite.log" | head; exit 1; fi
