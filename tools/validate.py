#!/usr/bin/env python3
"""Validate MANIFEST.json and every evidence file against the schemas (run with python3-vt)."""
import glob, json, sys
import jsonschema
ok = True
m = json.load(open('/verif/MANIFEST.json'))
jsonschema.validate(m, json.load(open('/root/.vp/MANIFEST.schema.json')))
es = json.load(open('/root/.vp/EVIDENCE.schema.json'))
for c in m['checks']:
    f = c['evidence_file']
    try:
        e = json.load(open(f))
        jsonschema.validate(e, es)
        assert e['level'] == c['level_claimed']['category'], 'level mismatch'
        print('ok ', f, e['tier'], e['coverage']['evaluations'], e['coverage']['distinct_nontrivial'], e['wall_s'])
    except Exception as ex:
        ok = False
        print('BAD', f, str(ex)[:200])
sys.exit(0 if ok else 1)
