#!/bin/sh
# usage: tools/with_mutant.sh <patch.diff> <ID> [check args...]
# Runs ./check <ID> against a scratch copy of /repo (HEAD + patch) and a scratch copy of
# /verif, so that neither /repo nor /verif is touched (safe to run concurrently).
# Prints the check's output and "MUTANT-EXIT=<code>". Everything is removed afterwards.
patch="$(realpath "$1")"; shift
id="$1"; shift
d="$(mktemp -d /tmp/jaq-mut-XXXXXX)"
trap 'rm -rf "$d"' EXIT INT TERM
mkdir -p "$d/repo" "$d/verif"
git -C /repo archive HEAD | tar -x -C "$d/repo"
if [ "$patch" != "/dev/null" ]; then
  (cd "$d/repo" && git apply --whitespace=nowarn "$patch") || { echo "PATCH DOES NOT APPLY"; exit 3; }
fi
rsync -a --exclude .target --exclude replays --exclude evidence --exclude .git --exclude seeded /verif/ "$d/verif/"
mkdir -p "$d/verif/evidence"
if [ -d /verif/.target ]; then cp -a /verif/.target "$d/verif/.target" 2>/dev/null; rm -f "$d/verif/.target/.repo-lock.sha"; fi
sed -i "s#\"/repo/#\"$d/repo/#g" "$d/verif/harness/Cargo.toml"
rm -f "$d/verif/harness/Cargo.lock"
(cd "$d/verif" && VERIF_REPO="$d/repo" ./check "$id" "$@")
code=$?
echo "MUTANT-EXIT=$code"
exit $code
