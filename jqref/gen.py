"""Scope-, arity- and (loosely) type-aware generator of core-language programs as `G` trees.

Every generated program is well-scoped by construction: a context tracks the variables, labels,
filter parameters and definitions in scope with their arities. Types ('n' number, 'a' array of
numbers, 'o' object with keys a/b/c of numbers, 's' string, 'b' boolean) keep most programs
from failing at the first operator, so that binders, closures and multi-valued combinations
are actually executed; a small share of untyped "chaos" keeps error paths alive.
Weights favour binder-heavy shapes (nested defs with mixed $x / f parameters, shadowing at
every kind of binder, closures crossing definition boundaries, bounded recursion, label/break
through closures, destructuring patterns, reduce/foreach with 0/1/2-output updates, try/catch,
`//`, paths with multi-valued indices and `?`, updates, interpolation, multi-entry objects with
multi-valued keys and values, non-commutative operators with multi-valued operands)."""
from . import ast as A

NUMS = ["0", "1", "2", "3", "5", "10"]
VAR_NAMES = ["$x", "$y", "$z", "$a", "$b", "$n"]
FUN_NAMES = ["f", "g", "h", "k"]
LABELS = ["$l", "$m", "$x"]
KEYS = ["a", "b", "c"]


class Ctx:
    def __init__(self, tin="n", vars_=(), labels=(), funs=(), depth=0, counter_var=None):
        self.tin = tin                # type of `.`
        self.vars = tuple(vars_)      # (name, type) innermost last
        self.labels = tuple(labels)
        self.funs = tuple(funs)       # (name, params, tin, tout, recursive) innermost last; params: tuple of ('v', type) | ('f', tin, tout)
        self.depth = depth

    def with_(self, **kw):
        c = Ctx(self.tin, self.vars, self.labels, self.funs, self.depth)
        for k, v in kw.items():
            setattr(c, k, v)
        return c

    def visible_vars(self, ty=None):
        seen = set()
        out = []
        for name, t in reversed(self.vars):
            if name in seen:
                continue
            seen.add(name)
            if ty is None or t == ty:
                out.append(name)
        return out

    def visible_funs(self):
        seen = set()
        out = []
        for f in reversed(self.funs):
            key = (f[0], len(f[1]))
            if key in seen:
                continue
            seen.add(key)
            out.append(f)
        return out


class Gen:
    def __init__(self, rng, max_size=30, chaos=0.04):
        self.rng = rng
        self.budget = max_size
        self.chaos = chaos
        self.stats = {}

    def note(self, k):
        self.stats[k] = self.stats.get(k, 0) + 1

    def pick(self, weighted):
        total = sum(w for w, _ in weighted)
        r = self.rng.random() * total
        for w, x in weighted:
            r -= w
            if r <= 0:
                return x
        return weighted[-1][1]

    def program(self, tin="n"):
        ctx = Ctx(tin)
        t = self.term(ctx, self.rng.choice(["n", "n", "a", "o", "*"]), self.budget)
        return t

    # ---------------------------------------------------------------------------------
    def term(self, ctx, ty, size):
        """a term producing a stream of values of type ty from an input of type ctx.tin"""
        self.budget -= 1
        if size <= 1 or self.budget <= 0 or ctx.depth > 9:
            return self.leaf(ctx, ty)
        if self.rng.random() < self.chaos:
            return self.term(ctx.with_(depth=ctx.depth + 1), self.rng.choice(["n", "a", "o", "s", "b"]), size - 1)
        c = ctx.with_(depth=ctx.depth + 1)
        opts = [
            (3, self.g_leaf), (4, self.g_pipe), (3, self.g_comma), (5, self.g_bind), (3, self.g_pattern),
            (5, self.g_def), (4, self.g_call), (2, self.g_if), (2, self.g_try), (2, self.g_label),
            (3, self.g_fold), (1, self.g_alt), (2, self.g_limit), (1, self.g_paren_chain),
            (3, self.g_nest), (3, self.g_deep_pattern), (2, self.g_label_tailrec), (2, self.g_opt_chain),
        ]
        if ty == "n":
            opts += [(5, self.g_math), (2, self.g_neg), (2, self.g_index), (1, self.g_length), (1, self.g_add)]
        elif ty == "a":
            opts += [(5, self.g_arr), (2, self.g_update), (1, self.g_arr_plus), (1, self.g_slice), (1, self.g_paths)]
        elif ty == "o":
            opts += [(5, self.g_obj), (2, self.g_update), (1, self.g_obj_plus)]
        elif ty == "s":
            opts += [(5, self.g_interp), (1, self.g_tostring)]
        elif ty == "b":
            opts += [(5, self.g_cmp), (3, self.g_logic)]
        else:
            return self.term(c, self.rng.choice(["n", "a", "o", "s", "b"]), size)
        f = self.pick(opts)
        self.note(f.__name__)
        return f(c, ty, size - 1)

    def leaf(self, ctx, ty):
        r = self.rng.random()
        vs = ctx.visible_vars(ty)
        if vs and r < 0.35:
            return A.var(self.rng.choice(vs))
        funs0 = [f for f in ctx.visible_funs() if not f[1] and f[3] == ty and f[2] == ctx.tin and not f[4]]
        if funs0 and r < 0.55:
            return A.call(self.rng.choice(funs0)[0])
        if ctx.tin == ty and r < 0.8:
            return A.ID
        if ty == "n":
            if ctx.tin == "a" and self.rng.random() < 0.5:
                return self.rng.choice([A.iterate(A.ID), A.index(A.ID, A.num(0)), A.index(A.ID, ("neg", A.num(1))),
                                        A.call("length"), A.iterate(A.ID, True)])
            if ctx.tin == "o" and self.rng.random() < 0.5:
                return self.rng.choice([A.key(A.ID, "a"), A.key(A.ID, "b"), A.iterate(A.ID)])
            return A.num(self.rng.choice(NUMS))
        if ty == "a":
            if ctx.tin == "n":
                return ("arr", self.rng.choice([A.ID, ("comma", A.ID, A.num(1)), None]))
            return ("arr", ("comma", A.num(1), A.num(2)))
        if ty == "o":
            if ctx.tin == "n":
                return ("obj", ((A.string("a"), A.ID), (A.string("b"), A.num(2))))
            return ("obj", ((A.string("a"), A.num(1)),))
        if ty == "s":
            return A.string(self.rng.choice(["", "a", "b c", "é", "\n\"\\"]))
        if ty == "b":
            return A.call(self.rng.choice(["true", "false"])) if self.rng.random() < 0.7 else A.call("null")
        return A.ID

    def g_leaf(self, ctx, ty, size):
        return self.leaf(ctx, ty)

    def split(self, size, n=2):
        cuts = sorted(self.rng.randrange(0, size + 1) for _ in range(n - 1))
        parts = []
        prev = 0
        for c in cuts + [size]:
            parts.append(max(1, c - prev))
            prev = c
        return parts

    def g_pipe(self, ctx, ty, size):
        a, b = self.split(size)
        mid = self.rng.choice(["n", "n", "a", "o"])
        l = self.term(ctx, mid, a)
        r = self.term(ctx.with_(tin=mid), ty, b)
        return A.pipe(l, r)

    def g_comma(self, ctx, ty, size):
        a, b = self.split(size)
        return ("comma", self.term(ctx, ty, a), self.term(ctx, ty, b))

    def fresh_var(self, ctx):
        # shadow on purpose with probability 1/3
        vs = ctx.visible_vars()
        if vs and self.rng.random() < 0.33:
            return self.rng.choice(vs)
        return self.rng.choice(VAR_NAMES)

    def g_bind(self, ctx, ty, size):
        a, b = self.split(size)
        vt = self.rng.choice(["n", "n", "a", "o"])
        l = self.term(ctx, vt, a)
        x = self.fresh_var(ctx)
        r = self.term(ctx.with_(vars=ctx.vars + ((x, vt),)), ty, b)
        return A.bind(l, ("pvar", x), r)

    def g_pattern(self, ctx, ty, size):
        a, b = self.split(size)
        x, y = self.fresh_var(ctx), self.fresh_var(ctx)
        kind = self.rng.randrange(4)
        if kind == 0:       # array pattern over an array of numbers
            l = self.term(ctx, "a", a)
            pat = ("parr", (("pvar", x), ("pvar", y)))
            vars_ = ctx.vars + ((x, "n"), (y, "n"))
            if x == y:
                vars_ = ctx.vars + ((x, "n"),)
        elif kind == 1:     # object pattern with plain and $-shorthand keys
            l = self.term(ctx, "o", a)
            pat = ("pobj", ((A.string("a"), ("pvar", x)), (A.string("b"), ("pvar", "$b"))))
            vars_ = ctx.vars + ((x, "n"), ("$b", "n"))
        elif kind == 2:     # computed, multi-valued key
            l = self.term(ctx, "o", a)
            pat = ("pobj", ((("comma", A.string("a"), A.string("b")), ("pvar", x)),))
            vars_ = ctx.vars + ((x, "n"),)
        else:               # nested
            l = ("arr", ("comma", self.term(ctx, "n", max(1, a // 2)), self.term(ctx, "o", max(1, a // 2))))
            pat = ("parr", (("pvar", x), ("pobj", ((A.string("a"), ("pvar", y)),))))
            vars_ = ctx.vars + ((x, "n"), (y, "n"))
            if x == y:
                vars_ = ctx.vars + ((x, "n"),)
        r = self.term(ctx.with_(vars=vars_), ty, b)
        return A.bind(l, pat, r)

    def g_def(self, ctx, ty, size):
        """local definition(s) with mixed $x / f parameters, possibly recursive, then a body that
        calls them (closures capture variables, labels and earlier definitions)"""
        a, b = self.split(size)
        ndefs = self.rng.choice([1, 1, 2])
        defs = []
        c = ctx
        for _ in range(ndefs):
            name = self.rng.choice(FUN_NAMES)
            nparams = self.rng.choice([0, 0, 1, 1, 2])
            ftin = self.rng.choice(["n", "n", c.tin])
            ftout = self.rng.choice(["n", "n", "a", ty])
            params = []
            pnames = []
            fvars = c.vars
            ffuns = c.funs
            for i in range(nparams):
                if self.rng.random() < 0.5:
                    pn = self.rng.choice(["$p", "$q", "$x"])
                    while pn in pnames:
                        pn = pn + "1"
                    params.append(("v", "n"))
                    pnames.append(pn)
                    fvars = fvars + ((pn, "n"),)
                else:
                    pn = self.rng.choice(["p", "q", "f"])
                    while pn in pnames:
                        pn = pn + "1"
                    pt = (self.rng.choice(["n", ftin]), "n")
                    params.append(("f",) + pt)
                    pnames.append(pn)
                    ffuns = ffuns + ((pn, (), pt[0], pt[1], False),)
            recursive = ftin == "n" and ftout == "n" and self.rng.random() < 0.4
            fctx = c.with_(tin=ftin, vars=fvars, funs=ffuns, labels=c.labels)
            if recursive:
                # bounded recursion: the counter is the input itself
                self_entry = (name, tuple(params), ftin, ftout, True)
                inner = fctx.with_(funs=fctx.funs + (self_entry,))
                limit = self.rng.choice(["3", "4", "5"])
                base = self.term(fctx, "n", max(1, a // 3))
                step_args = tuple(self.arg_for(inner, p, 2) for p in params)
                rec_call = A.pipe(("math", "+", A.ID, A.num(1)), ("call", name, step_args))
                shape = self.rng.randrange(4)
                if shape == 0:
                    then = rec_call
                elif shape == 1:
                    then = ("comma", A.ID, rec_call)
                elif shape == 2:
                    then = ("math", "+", A.num(1), rec_call)          # not a tail call
                else:
                    then = A.bind(A.ID, ("pvar", "$r"), rec_call)
                body = ("if", ((("cmp", "<", A.ID, A.num(limit)), then),), base)
            else:
                body = self.term(fctx, ftout, max(1, a // ndefs))
            defs.append((name, tuple(pnames), body))
            c = c.with_(funs=c.funs + ((name, tuple(params), ftin, ftout, False),))
        rest = self.term(c, ty, b)
        return ("def", tuple(defs), rest)

    def arg_for(self, ctx, p, size):
        if p[0] == "v":
            return self.term(ctx, "n", size)
        return self.term(ctx.with_(tin=p[1]), p[2], size)

    def g_call(self, ctx, ty, size):
        cands = [f for f in ctx.visible_funs() if f[3] == ty and not f[4]]
        if not cands:
            return self.g_def(ctx, ty, size)
        f = self.rng.choice(cands)
        parts = self.split(size, len(f[1]) + 1)
        args = tuple(self.arg_for(ctx, p, s) for p, s in zip(f[1], parts[1:]))
        call = ("call", f[0], args)
        if f[2] == ctx.tin:
            return call
        return A.pipe(self.term(ctx, f[2], parts[0]), call)

    def g_if(self, ctx, ty, size):
        a, b, c = self.split(size, 3)
        cond = self.term(ctx, "b", a)
        th = self.term(ctx, ty, b)
        if self.rng.random() < 0.2 and ctx.tin == ty:
            return ("if", ((cond, th),), None)
        if self.rng.random() < 0.25:
            c1, c2 = self.split(c)
            return ("if", ((cond, th), (self.term(ctx, "b", c1), self.term(ctx, ty, c2))), self.leaf(ctx, ty))
        return ("if", ((cond, th),), self.term(ctx, ty, c))

    def g_try(self, ctx, ty, size):
        a, b = self.split(size)
        body = self.term(ctx, ty, a)
        r = self.rng.random()
        if r < 0.35:
            body = ("comma", body, ("call", "error", (self.term(ctx, ty, 1),)))
        elif r < 0.5:
            body = ("comma", body, A.index(A.num(1), A.num(0)))   # built-in error
        if self.rng.random() < 0.4:
            return ("try", body, None)
        # the handler receives the error value as input: only user errors of type ty are typed
        h = self.rng.choice([A.ID, ("arr", A.ID), self.leaf(ctx.with_(tin="*"), ty)]) if r < 0.35 else \
            self.rng.choice([self.leaf(ctx.with_(tin="*"), ty), A.call("type")])
        return ("try", body, h)

    def g_label(self, ctx, ty, size):
        a, b = self.split(size)
        l = self.rng.choice(LABELS)
        inner = ctx.with_(labels=ctx.labels + (l,))
        body = self.term(inner, ty, a)
        shape = self.rng.randrange(4)
        if shape == 0:
            t = ("comma", body, ("comma", ("break", l), self.term(inner, ty, b)))
        elif shape == 1:
            t = A.pipe(body, ("if", ((self.term(inner.with_(tin=ty), "b", b), ("break", l)),), A.ID)) if ty in "nao" else \
                ("comma", body, ("break", l))
        elif shape == 2:
            # break through a closure
            t = ("def", (("brk", ("g",), ("comma", A.call("g"), ("call", "g", ()))),),
                 ("comma", body, ("call", "brk", (("break", l),))))
            t = ("def", (("brk", ("g",), ("comma", self.leaf(inner, ty), A.call("g"))),),
                 ("comma", body, ("call", "brk", (("break", l),))))
        else:
            outer = self.rng.choice(ctx.labels) if ctx.labels else l
            t = ("comma", body, ("break", outer)) if self.rng.random() < 0.5 else ("comma", body, ("break", l))
        return ("label", l, t)

    def g_fold(self, ctx, ty, size):
        a, b, c = self.split(size, 3)
        kind = self.rng.choice(["reduce", "foreach", "foreach"])
        x = self.fresh_var(ctx)
        xs = self.term(ctx, "n", a)
        if self.rng.random() < 0.5:
            xs = ("comma", xs, self.term(ctx, "n", 1))
        pat = ("pvar", x)
        vars_ = ctx.vars + ((x, "n"),)
        if self.rng.random() < 0.2:
            xs = ("arr", ("comma", xs, A.num(1)))
            pat = ("parr", (("pvar", x),))
        acc_t = "n" if ty not in ("a",) else "a"
        init = self.term(ctx, acc_t, max(1, b // 2))
        uctx = ctx.with_(tin=acc_t, vars=vars_)
        r = self.rng.random()
        if acc_t == "n":
            upd = ("math", self.rng.choice("+-*"), A.ID, A.var(x))
        else:
            upd = ("math", "+", A.ID, ("arr", A.var(x)))
        if r < 0.2:
            upd = ("comma", upd, self.term(uctx, acc_t, 1))           # two outputs
        elif r < 0.3:
            upd = ("if", ((("cmp", ">", A.var(x), A.num(1)), A.call("empty")),), upd)   # sometimes none
        elif r < 0.5:
            upd = self.term(uctx, acc_t, max(1, b // 2))
        if kind == "reduce":
            t = ("fold", "reduce", xs, pat, (init, upd))
        elif self.rng.random() < 0.5:
            t = ("fold", "foreach", xs, pat, (init, upd))
        else:
            t = ("fold", "foreach", xs, pat, (init, upd, self.term(uctx, acc_t, c)))
        if acc_t == ty:
            return t
        return A.pipe(t, self.term(ctx.with_(tin=acc_t), ty, 1))

    def g_alt(self, ctx, ty, size):
        a, b = self.split(size)
        l = self.term(ctx, ty, a)
        if self.rng.random() < 0.5:
            l = ("comma", self.rng.choice([A.call("null"), A.call("false"), A.call("empty")]), l)
        return ("alt", l, self.term(ctx, ty, b))

    def g_limit(self, ctx, ty, size):
        inner = self.term(ctx, ty, size)
        name = self.rng.choice(["limit", "first", "last", "skip", "nth", "isempty", "any", "add", "select", "recurse", "repeat"])
        n = A.num(self.rng.choice(["0", "1", "2", "3"]))
        if name == "limit":
            return ("call", "limit", (n, inner))
        if name == "skip":
            return ("call", "skip", (n, inner))
        if name == "nth":
            return ("call", "nth", (n, inner))
        if name in ("first", "last"):
            return ("call", name, (inner,))
        if name == "isempty" and ty == "b":
            return ("call", "isempty", (inner,))
        if name == "any" and ty == "b":
            return ("call", self.rng.choice(["any", "all"]), (self.term(ctx, "n", 2), ("cmp", ">", A.ID, A.num(1))))
        if name == "add" and ty in ("n", "a", "s"):
            return ("call", "add", (inner,))
        if name == "select":
            return A.pipe(inner, ("call", "select", (self.term(ctx.with_(tin=ty), "b", 2),)))
        if name == "recurse" and ty == "n":
            return ("call", "limit", (n, A.pipe(inner, ("call", "recurse", (("math", "+", A.ID, A.num(1)),)))))
        if name == "repeat":
            return ("call", "limit", (n, ("call", "repeat", (inner,))))
        return ("call", "first", (inner,))

    def g_paren_chain(self, ctx, ty, size):
        # non-commutative operators with multi-valued operands
        if ty != "n":
            return self.g_comma(ctx, ty, size)
        a, b = self.split(size)
        l = ("comma", self.term(ctx, "n", a), self.term(ctx, "n", 1))
        r = ("comma", self.term(ctx, "n", b), self.term(ctx, "n", 1))
        return ("math", self.rng.choice(["-", "-", "*", "+"]), l, r)

    # ---------------------------------------------------------------------------------
    # nests of definitions that call themselves, their parents and their siblings, in and out
    # of tail position (every call increments the counter in `.`, every body is guarded by
    # `. >= L`, so all nests terminate)
    def g_nest(self, ctx, ty, size):
        r = self.rng
        L = r.choice([3, 4, 5])
        param = r.choice([None, None, "$v", "p"])
        params = (param,) if param else ()

        def call(name):
            if not param:
                return ("call", name, ())
            if param == "$v":
                return ("call", name, (r.choice([A.var("$v"), ("math", "+", A.var("$v"), A.num(1))]),))
            return ("call", name, (A.call("p"),))

        def item(callables):
            name = r.choice(callables)
            step = A.pipe(("math", "+", ID_, A.num(r.choice(["1", "1", "2"]))), call(name))
            w = r.randrange(10)
            if w < 4:
                return step                                         # tail position
            if w == 4:
                return A.pipe(step, ("neg", ID_))
            if w == 5:
                return ("math", "+", A.num(1000), step)
            if w == 6:
                return A.bind(step, ("pvar", "$q"), ("math", "+", A.var("$q"), A.num(1)))
            if w == 7:
                return ("call", "first", (step,))
            if w == 8:
                return ("try", step, A.num(0))
            return ("label", "$o", ("comma", step, ("break", "$o")))

        def body(callables):
            base = r.choice([ID_, ("math", "*", ID_, A.num(10))] + ([A.var("$v")] if param == "$v" else []) +
                            ([A.call("p")] if param == "p" else []))
            k = r.randrange(4)
            if k == 0:
                alt = item(callables)
            elif k == 1:
                alt = ("comma", item(callables), item(callables))
            elif k == 2:
                alt = ("if", ((("cmp", "==", ("math", "%", ID_, A.num(2)), A.num(0)), item(callables)),), item(callables))
            else:
                alt = ("if", ((("cmp", "<", ID_, A.num(2)), item(callables)), (("cmp", "<", ID_, A.num(3)), item(callables))),
                       ("comma", item(callables), A.num(7)))
            return ("if", ((("cmp", ">=", ID_, A.num(L)), base),), alt)

        shape = r.randrange(3)
        if shape == 0:
            inner = (("ng", params, body(["ng", "nf"])),)
            fbody = ("def", inner, body(["nf", "ng", "ng"]))
        elif shape == 1:
            inner = (("ng", params, body(["ng", "nf"])), ("nh", params, body(["nh", "ng", "nf"])))
            fbody = ("def", inner, body(["nf", "ng", "nh"]))
        else:
            innermost = (("nh", params, body(["nh", "ng", "nf"])),)
            inner = (("ng", params, ("def", innermost, body(["ng", "nh", "nf"]))),)
            fbody = ("def", inner, body(["nf", "ng"]))
        start = r.choice([A.num(0), ("comma", A.num(0), A.num(1)), A.num(2)])
        if param == "$v":
            first_call = ("call", "nf", (A.num(r.choice(["5", "6"])),))
        elif param == "p":
            first_call = ("call", "nf", (r.choice([A.num(9), ("math", "+", ID_, A.num(100))]),))
        else:
            first_call = A.call("nf")
        t = ("def", (("nf", params, fbody),), A.pipe(start, first_call))
        if ty == "n":
            return t
        return A.pipe(("call", "limit", (A.num(6), t)), self.term(ctx.with_(tin="n"), ty, 2))

    # labels bound outside, inside and in filter arguments of tail-recursive definitions that have been
    # re-entered several times; `break` to the outer or to the inner label; outputs after the call
    def g_label_tailrec(self, ctx, ty, size):
        r = self.rng
        L = A.num(r.choice(["0", "1", "2", "3"]))
        target = lambda: ("break", r.choice(["$oa", "$oa", "$ib"]))
        inner = ("label", "$ib", ("comma", A.num(1), ("comma", r.choice([target(), A.pipe(ID_, target())]), A.num(2))))
        after = r.choice([A.num(3), ("comma", A.num(3), ("break", "$oa")), A.string("after")])
        shape = r.randrange(4)
        if shape == 0:
            # the label lives in a filter argument that is run after the last re-entry
            body = ("if", ((("cmp", ">=", ID_, L), A.call("lg")),), A.pipe(("math", "+", ID_, A.num(1)), ("call", "lf", (A.call("lg"),))))
            t = ("def", (("lf", ("lg",), body),), A.pipe(A.num(0), ("call", "lf", (("comma", inner, after),))))
        elif shape == 1:
            # the label lives in the body of the definition
            body = ("if", ((("cmp", "<", ID_, L), A.pipe(("math", "+", ID_, A.num(1)), A.call("lf"))),),
                    ("label", "$ib", ("comma", ID_, r.choice([("break", "$oa"), ("break", "$ib")]))))
            t = ("comma", A.string("x"), ("comma", ("def", (("lf", (), body),), A.pipe(A.num(0), A.call("lf"))), A.string("y")))
        elif shape == 2:
            # a built-in loop: recurse re-enters its helper for every output
            step = ("label", "$ib", ("if", ((("cmp", ">=", ID_, L), target()),), ("math", "+", ID_, A.num(1))))
            t = ("comma", A.pipe(A.num(0), ("call", "recurse", (step,))), A.string("after"))
        else:
            # every iteration binds a label and breaks out of one bound by an earlier iteration's caller
            body = ("label", "$ib", ("if", ((("cmp", ">=", ID_, L), ("comma", ID_, ("comma", target(), A.num(9)))),),
                                      ("comma", ID_, A.pipe(("math", "+", ID_, A.num(1)), A.call("lf")))))
            t = ("comma", ("def", (("lf", (), body),), A.pipe(A.num(0), A.call("lf"))), A.num(5))
        t = ("arr", ("label", "$oa", t))
        if ty == "a":
            return t
        return A.pipe(t, self.term(ctx.with_(tin="a"), ty, 2))

    # compound paths whose parts fail independently: `.a?.b`, `.[]?[0]`, `.[0]?[1:]` ... on mixed data,
    # run for values, for paths and on the left of updates (f[x]?[y] == f | .[x]? | .[y])
    def g_opt_chain(self, ctx, ty, size):
        r = self.rng
        data = r.choice([
            ("arr", comma_of([("arr", A.num(1)), A.num(2), ("arr", A.num(3)), A.string("s"), ("obj", ((A.string("a"), ("arr", A.num(4))),))])),
            ("obj", ((A.string("a"), A.num(1)), (A.string("b"), ("obj", ((A.string("a"), ("arr", comma_of([A.num(5), A.num(6)]))),))))),
            ("arr", comma_of([("arr", ("arr", comma_of([A.num(1), A.num(2)]))), ("arr", A.num(5)), A.call("null")])),
        ])

        def part():
            k = r.randrange(5)
            opt = r.random() < 0.5
            if k == 0:
                return (("range", None, None), opt)
            if k == 1:
                return (("index", A.num(r.choice(["0", "1"]))), opt)
            if k == 2:
                return (("index", A.string(r.choice(["a", "b"]))), opt)
            if k == 3:
                return (("range", A.num(0), A.num(1)), opt)
            return (("index", ("comma", A.num(0), A.string("a"))), opt)
        parts = tuple(part() for _ in range(r.choice([2, 2, 3])))
        p = ("path", ID_, parts)
        how = r.randrange(4)
        if how == 0:
            t = ("arr", ("try", p, A.string("E")))
        elif how == 1:
            t = ("arr", ("try", ("call", "path", (p,)), A.string("E")))
        elif how == 2:
            t = ("arr", ("try", ("update", p, r.choice([A.num(0), ("math", "+", ID_, A.num(1)) if False else ("arr", ID_)])), A.string("E")))
        else:
            t = ("arr", ("comma", ("try", p, A.string("E")), ("try", ("call", "first", (p,)), A.string("F"))))
        t = A.pipe(data, t)
        if ty == "a":
            return t
        return A.pipe(t, self.term(ctx.with_(tin="a"), ty, 2))

    # destructuring with nested patterns whose computed keys refer to outer variables, filter
    # arguments and earlier definitions, after other pattern variables have been bound
    def g_deep_pattern(self, ctx, ty, size):
        r = self.rng
        a, b = self.split(size)
        kname = r.choice(["$k", "$x", "$key"])
        inner_e = ("obj", ((A.string("b"), A.num(3)),))
        inner_c = ("obj", ((A.string("b"), A.num(2)), (A.string("e"), inner_e)))
        val = ("obj", ((A.string("a"), A.num(1)), (A.string("c"), inner_c), (A.string("b"), A.num(4))))
        keyexpr = r.choice([A.var(kname), ("comma", A.var(kname), A.string("e")), ("str", None, (("t", A.var(kname)),)),
                            A.pipe(A.var(kname), ID_)])
        x, y, z = "$x1", "$y1", "$z1"
        shape = r.randrange(4)
        if shape == 0:
            pat = ("pobj", ((A.string("a"), ("pvar", x)), (A.string("c"), ("pobj", ((keyexpr, ("pvar", y)),)))))
            vars_ = [(x, "n"), (y, "*")]
        elif shape == 1:
            pat = ("pobj", ((A.string("a"), ("pvar", x)), (A.string("b"), ("pvar", z)), (A.string("c"), ("pobj", ((A.string("e"), ("pobj", ((keyexpr, ("pvar", y)),))),)))))
            vars_ = [(x, "n"), (z, "n"), (y, "*")]
        elif shape == 2:
            pat = ("pobj", ((A.string("c"), ("pobj", ((keyexpr, ("pvar", y)),))), (A.string("a"), ("pvar", x))))
            vars_ = [(y, "*"), (x, "n")]
        else:
            val = ("arr", ("comma", A.num(1), val))
            pat = ("parr", (("pvar", x), ("pobj", ((A.string("c"), ("pobj", ((keyexpr, ("pvar", y)),))),))))
            vars_ = [(x, "n"), (y, "*")]
        body = ("arr", comma_of([A.var(v) for v, _ in vars_]))
        how = r.randrange(4)
        inner_ctx = ctx.with_(vars=ctx.vars + ((kname, "s"),) + tuple(vars_))
        extra = self.term(inner_ctx.with_(tin=ctx.tin), "n", b) if r.random() < 0.5 else A.num(0)
        body = ("arr", comma_of([A.var(v) for v, _ in vars_] + [extra]))
        if how == 0:
            t = A.bind(val, pat, body)
        elif how == 1:
            t = ("fold", "reduce", val, pat, (("arr", None), ("math", "+", ID_, body)))
        elif how == 2:
            t = ("fold", "foreach", ("comma", val, val), pat, (A.num(0), ("math", "+", ID_, A.num(1)), ("arr", ("comma", ID_, body))))
        else:
            # the key comes from a filter argument of an enclosing definition
            pat2 = replace_term(pat, keyexpr, A.call("kf"))
            t = ("def", (("dp", ("kf",), A.bind(val, pat2, body)),), ("call", "dp", (keyexpr,)))
        t = A.bind(A.string("b"), ("pvar", kname), t)
        if ty == "a":
            return t
        return A.pipe(t, self.term(ctx.with_(tin="a"), ty, 2))

    def g_math(self, ctx, ty, size):
        a, b = self.split(size)
        op = self.rng.choice(["+", "-", "*", "+", "-", "%"])
        l, r = self.term(ctx, "n", a), self.term(ctx, "n", b)
        if op == "%":
            r = ("math", "+", A.num(1), ("call", "length", ())) if False else A.num(self.rng.choice(["2", "3"]))
        return ("math", op, l, r)

    def g_neg(self, ctx, ty, size):
        return ("neg", self.term(ctx, "n", size))

    def g_index(self, ctx, ty, size):
        a, b = self.split(size)
        r = self.rng.random()
        if r < 0.4:
            arr = self.term(ctx, "a", a)
            idx = self.term(ctx, "n", b)
            if self.rng.random() < 0.5:
                idx = ("comma", idx, A.num(0))
            return ("path", arr, ((("index", idx), self.rng.random() < 0.3),))
        if r < 0.6:
            return ("path", self.term(ctx, "a", size), ((("range", None, None), self.rng.random() < 0.3),))
        if r < 0.8:
            obj = self.term(ctx, "o", a)
            k = self.rng.choice(KEYS)
            return ("path", obj, ((("index", A.string(k)), False),))
        arr = self.term(ctx, "a", a)
        return ("path", arr, ((("range", self.term(ctx, "n", 1), None), False), (("range", None, None), False)))

    def g_length(self, ctx, ty, size):
        return A.pipe(self.term(ctx, self.rng.choice(["a", "o", "s", "n"]), size), A.call("length"))

    def g_add(self, ctx, ty, size):
        return A.pipe(self.term(ctx, "a", size), A.call("add"))

    def g_arr(self, ctx, ty, size):
        if self.rng.random() < 0.1:
            return ("arr", None)
        return ("arr", self.term(ctx, "n", size))

    def g_arr_plus(self, ctx, ty, size):
        a, b = self.split(size)
        return ("math", self.rng.choice(["+", "-"]), self.term(ctx, "a", a), self.term(ctx, "a", b))

    def g_slice(self, ctx, ty, size):
        a, b = self.split(size)
        lo = self.term(ctx, "n", 1) if self.rng.random() < 0.7 else None
        hi = self.term(ctx, "n", 1) if self.rng.random() < 0.7 or lo is None else None
        return ("path", self.term(ctx, "a", a), ((("range", lo, hi), False),))

    def g_paths(self, ctx, ty, size):
        p = self.path_expr(ctx.with_(tin="a"), 2)
        src = self.term(ctx, "a", size)
        which = self.rng.randrange(3)
        if which == 0:
            return A.pipe(src, ("arr", ("call", "path", (p,))))
        if which == 1:
            return A.pipe(src, ("arr", A.call("paths")))
        return A.pipe(src, ("arr", ("call", "getpath", (("call", "path", (p,)),))))

    def path_expr(self, ctx, size):
        """a path expression valid on the left of updates, for an array/object input"""
        r = self.rng.random()
        if size <= 0 or r < 0.25:
            if ctx.tin == "o":
                return self.rng.choice([A.key(A.ID, "a"), A.key(A.ID, "b"), A.iterate(A.ID), A.key(A.ID, "zz")])
            return self.rng.choice([A.iterate(A.ID), A.index(A.ID, A.num(0)), A.index(A.ID, ("neg", A.num(1))),
                                    A.iterate(A.ID, True), ("path", A.ID, ((("range", A.num(1), None), False),)), A.ID])
        if r < 0.4:
            return ("comma", self.path_expr(ctx, size - 1), self.path_expr(ctx, size - 1))
        if r < 0.55 and ctx.tin == "a":
            return A.pipe(A.iterate(A.ID), ("call", "select", (("cmp", self.rng.choice([">", "<", "=="]), A.ID, A.num(self.rng.choice(NUMS))),)))
        if r < 0.65 and ctx.tin == "a":
            x = self.fresh_var(ctx)
            return A.bind(("comma", A.num(0), A.num(1)), ("pvar", x), A.index(A.ID, A.var(x)))
        if r < 0.75:
            return ("if", ((("cmp", ">", A.call("length"), A.num(1)), self.path_expr(ctx, size - 1)),), self.path_expr(ctx, size - 1))
        if r < 0.85:
            return ("alt", self.path_expr(ctx, size - 1), self.path_expr(ctx, size - 1))
        if r < 0.92 and ctx.tin == "a":
            return ("path", A.ID, ((("index", ("comma", A.num(0), A.num(1))), False),))
        if ctx.tin == "a":
            return ("fold", "reduce", A.num(0), ("pvar", "$i"), (A.ID, A.index(A.ID, A.var("$i"), True)))
        return A.call("empty")

    def g_update(self, ctx, ty, size):
        a, b = self.split(size)
        src = self.term(ctx, ty, a)
        pctx = ctx.with_(tin=ty)
        p = self.path_expr(pctx, 2)
        r = self.rng.random()
        el = pctx.with_(tin="n")
        if r < 0.35:
            u = self.rng.choice([("math", "+", A.ID, A.num(1)), ("comma", A.ID, ("math", "*", A.ID, A.num(2))),
                                 A.call("empty"), self.term(el, "n", b)])
            upd = ("update", p, u)
        elif r < 0.55:
            upd = ("assign", p, self.term(pctx, "n", b) if self.rng.random() < 0.7 else ("comma", A.num(7), A.num(8)))
        elif r < 0.8:
            upd = ("updmath", self.rng.choice("+-*"), p, self.term(pctx, "n", b) if self.rng.random() < 0.6 else ("comma", A.num(1), A.num(2)))
        elif r < 0.9:
            upd = ("updalt", p, A.num(9))
        else:
            upd = ("call", "del", (p,))
        return A.pipe(src, upd)

    def g_obj(self, ctx, ty, size):
        n = self.rng.choice([1, 2, 2, 3])
        parts = self.split(size, n)
        entries = []
        for i in range(n):
            r = self.rng.random()
            v = self.term(ctx, "n", parts[i])
            if r < 0.5:
                k = A.string(KEYS[i % 3])
            elif r < 0.65:
                k = ("comma", A.string("a"), A.string("b"))      # multi-valued key (parenthesised)
            elif r < 0.75 and ctx.visible_vars("n"):
                entries.append((A.var(self.rng.choice(ctx.visible_vars("n"))), None))   # {$x}
                continue
            elif r < 0.85:
                k = ("str", None, (("s", "k"), ("t", self.term(ctx, "n", 1))))           # "k\(f)"
            else:
                k = A.string(KEYS[i % 3])
                v = ("comma", v, self.term(ctx, "n", 1))          # multi-valued value
            entries.append((k, v))
        return ("obj", tuple(entries))

    def g_obj_plus(self, ctx, ty, size):
        a, b = self.split(size)
        return ("math", self.rng.choice(["+", "*"]), self.term(ctx, "o", a), self.term(ctx, "o", b))

    def g_interp(self, ctx, ty, size):
        a, b = self.split(size)
        parts = [("s", self.rng.choice(["", "x", "é "])), ("t", self.term(ctx, self.rng.choice(["n", "a", "s", "o"]), a))]
        if self.rng.random() < 0.5:
            parts += [("s", "-"), ("t", self.term(ctx, "n", b))]
        parts.append(("s", self.rng.choice(["", "!"])))
        parts = tuple(p for p in parts if not (p[0] == "s" and p[1] == ""))
        fmt = "@json" if self.rng.random() < 0.2 else None
        return ("str", fmt, parts)

    def g_tostring(self, ctx, ty, size):
        return A.pipe(self.term(ctx, self.rng.choice(["n", "a", "o"]), size), A.call(self.rng.choice(["tostring", "tojson", "type"])))

    def g_cmp(self, ctx, ty, size):
        a, b = self.split(size)
        t = self.rng.choice(["n", "n", "a"])
        return ("cmp", self.rng.choice(["<", "<=", ">", ">=", "==", "!="]), self.term(ctx, t, a), self.term(ctx, t, b))

    def g_logic(self, ctx, ty, size):
        a, b = self.split(size)
        if self.rng.random() < 0.2:
            return A.pipe(self.term(ctx, "b", size), A.call("not"))
        return (self.rng.choice(["and", "or"]), self.term(ctx, "b", a), self.term(ctx, "b", b))


ID_ = A.ID


def comma_of(items):
    t = items[-1]
    for x in reversed(items[:-1]):
        t = ("comma", x, t)
    return t


def replace_term(t, old, new):
    if t == old:
        return new
    if isinstance(t, tuple):
        return tuple(replace_term(x, old, new) for x in t)
    return t


def features(t):
    """abstraction of a program for counting distinct shapes: the multiset of node kinds with
    constants abstracted, plus binder depth"""
    kinds = {}
    maxdepth = [0]

    def go(x, depth):
        if not isinstance(x, tuple) or not x or not isinstance(x[0], str):
            if isinstance(x, tuple):
                for y in x:
                    go(y, depth)
            return
        k = x[0]
        if k in ("s", "t", "index", "range", "pvar", "parr", "pobj"):
            for y in x[1:]:
                go(y, depth)
            return
        if k == "def":
            kinds[k] = kinds.get(k, 0) + 1
            maxdepth[0] = max(maxdepth[0], depth + 1)
            for (_name, params, body) in x[1]:
                kinds["param"] = kinds.get("param", 0) + len(params)
                go(body, depth + 1 + len(params))
            go(x[2], depth + 1)
            return
        kinds[k] = kinds.get(k, 0) + 1
        d = depth
        if k in ("def", "label", "fold") or (k == "pipe" and x[2] is not None):
            d = depth + 1
            maxdepth[0] = max(maxdepth[0], d)
        for y in x[1:]:
            go(y, d)
    go(t, 0)
    return kinds, maxdepth[0]
