"""The harness's own syntax tree `G` for jq programs, an independent printer that knows the
manual's precedence table, and the conversion from jaq's parse tree (as serialised by
`jaqmon parse`) into `G`.

Terms are tagged tuples (hashable, comparable):

  ('id',) ('rec',) ('num', text) ('str', fmt|None, parts)   parts: (('s', text) | ('t', term), ...)
  ('arr', t|None) ('obj', ((key, val|None), ...)) ('neg', t)
  ('pipe', l, pat|None, r) ('comma', l, r) ('alt', l, r) ('or', l, r) ('and', l, r)
  ('math', op, l, r) ('cmp', op, l, r)
  ('assign', l, r) ('update', l, r) ('updmath', op, l, r) ('updalt', l, r)
  ('label', '$x', t) ('break', '$x')
  ('fold', 'reduce'|'foreach', xs, pat, (args...))
  ('try', t, c|None) ('if', ((c, t), ...), e|None)
  ('def', ((name, (params...), body), ...), t) ('call', name, (args...)) ('var', '$x')
  ('path', t, ((part, optional), ...))   part: ('index', t) | ('range', a|None, b|None)
patterns: ('pvar', '$x') | ('parr', (p...)) | ('pobj', ((keyterm, pat), ...))
"""
import random

ID = ("id",)
REC = ("rec",)

# precedence levels of the manual's table (docs/corelang.dj "sorted by increasing precedence")
LEVEL = {"pipe": 0, "comma": 1, "bind": 2, "assign": 3, "update": 3, "updmath": 3, "updalt": 3,
         "alt": 4, "or": 5, "and": 6}
CMP_LEVEL = {"==": 7, "!=": 7, "<": 8, "<=": 8, ">": 8, ">=": 8}
MATH_LEVEL = {"+": 9, "-": 9, "*": 10, "/": 10, "%": 11}
RIGHT_ASSOC = {0, 2, 3}     # `|` and everything containing `=`
BINARY = {"pipe", "comma", "alt", "or", "and", "math", "cmp", "assign", "update", "updmath", "updalt"}

KEYWORDS = {"def", "if", "then", "elif", "else", "end", "try", "catch", "label", "break", "reduce",
            "foreach", "as", "and", "or", "import", "include", "module", "not"}  # `not` is a plain filter


def num(n):
    return ("num", str(n))


def string(s):
    return ("str", None, (("s", s),) if s else ())


def var(x):
    return ("var", x)


def call(name, *args):
    return ("call", name, tuple(args))


def pipe(l, r):
    return ("pipe", l, None, r)


def bind(l, pat, r):
    return ("pipe", l, pat, r)


def index(t, i, opt=False):
    return ("path", t, ((("index", i), opt),))


def key(t, name, opt=False):
    return index(t, string(name), opt)


def iterate(t, opt=False):
    return ("path", t, ((("range", None, None), opt),))


def level_of(t):
    k = t[0]
    if k == "pipe":
        return 0 if t[2] is None else 2
    if k == "math":
        return MATH_LEVEL[t[1]]
    if k == "cmp":
        return CMP_LEVEL[t[1]]
    return LEVEL.get(k)


def is_binary(t):
    return t[0] in BINARY


def operands(t):
    k = t[0]
    if k == "pipe":
        return t[1], t[3]
    if k in ("math", "cmp", "updmath"):
        return t[2], t[3]
    return t[1], t[2]


def op_text(t):
    k = t[0]
    if k == "pipe":
        return "|" if t[2] is None else "as %s |" % pattern_text(t[2], Printer())
    if k in ("math", "cmp"):
        return t[1]
    if k == "updmath":
        return t[1] + "="
    return {"comma": ",", "alt": "//", "or": "or", "and": "and", "assign": "=", "update": "|=",
            "updalt": "//="}[k]


# -------------------------------------------------------------------------------------------
# string literal rendering

def quote(s, rng=None):
    out = ['"']
    for ch in s:
        o = ord(ch)
        if ch == '"':
            out.append('\\"')
        elif ch == "\\":
            out.append("\\\\")
        elif ch == "\n":
            out.append("\\n")
        elif ch == "\t":
            out.append("\\t")
        elif ch == "\r":
            out.append("\\r")
        elif o == 8:
            out.append("\\b")
        elif o == 12:
            out.append("\\f")
        elif o < 0x20 or o == 0x7f:
            out.append("\\u%04x" % o)
        elif rng is not None and o < 0x10000 and not (0xd800 <= o < 0xe000) and rng.random() < 0.15:
            out.append("\\u%04x" % o)
        else:
            out.append(ch)
    out.append('"')
    return "".join(out)


def is_ident(s):
    return bool(s) and (s[0].isalpha() or s[0] == "_") and all(c.isalnum() or c == "_" for c in s) and s.isascii()


def plain_string(t):
    """the text of a string literal without interpolation and format, else None"""
    if t[0] == "str" and t[1] is None and all(p[0] == "s" for p in t[2]):
        return "".join(p[1] for p in t[2])
    return None


# -------------------------------------------------------------------------------------------
# printer

class Printer:
    """mode: 'min' = only the parentheses the precedence table requires,
             'full' = parentheses around every non-atomic sub-term,
             'rand' = the required ones plus random redundant ones.
    sugar: whether shorthands (.a, {a}, {$x}, f?, elif, missing else) may be used when `G`
    contains their expansion in the canonical shape the parser produces."""

    def __init__(self, mode="min", rng=None, sugar=True, trivia=False):
        self.mode = mode
        self.rng = rng or random.Random(0)
        self.sugar = sugar
        self.trivia = trivia

    # whitespace / comments between tokens
    def sp(self):
        if not self.trivia:
            return " "
        r = self.rng.random()
        if r < 0.5:
            return " "
        if r < 0.65:
            return "\n"
        if r < 0.75:
            return " \t \r\n "
        if r < 0.85:
            return " # a comment ; ) ] } \" \\( \n "
        if r < 0.90:
            return " # continued \\\n still comment ) \n"
        if r < 0.93:
            return " # even \\\\\n"
        if r < 0.95:
            # a backslash followed by a blank does not precede the newline: the comment ends here
            return self.rng.choice([" # odd then blank \\ \n ", " # odd then tab \\\t\n", " # C:\\tmp\\  \n"])
        if r < 0.97:
            # three backslashes continue, and so does the continuation line if it ends with one
            return " # three \\\\\\\n still ] comment \\\n and still } \n"
        return "\t#x\r\n"

    def j(self, *parts):
        """join tokens with trivia"""
        out = []
        for p in parts:
            if p == "":
                continue
            if out:
                out.append(self.sp())
            out.append(p)
        return "".join(out)

    def paren(self, s):
        return self.j("(", s, ")")

    def maybe_redundant(self, s):
        if self.mode == "rand" and self.rng.random() < 0.2:
            return self.paren(s)
        return s

    def term(self, t, tail=True, nocomma=False):
        """tail: nothing follows this term inside the innermost enclosing delimiter;
        nocomma: a top-level `,` here would end the term (object values)."""
        k = t[0]
        if k in BINARY:
            s = self.binary(t, tail, nocomma)
            return self.maybe_redundant(s)
        if k in ("label", "def"):
            s = self.open_right(t)
            if not tail or nocomma or self.mode == "full":
                return self.paren(s)
            return self.maybe_redundant(s)
        return self.maybe_redundant(self.atom(t))

    def binary(self, t, tail, nocomma):
        L = level_of(t)
        l, r = operands(t)
        ls = self.operand(l, L, left=True, tail=False, nocomma=nocomma)
        if t[0] == "pipe" and t[2] is not None:
            # body of a binding extends as far right as possible
            rs = self.operand(r, L, left=False, tail=tail, nocomma=nocomma, body=True)
            s = self.j(ls, "as", pattern_text(t[2], self), "|", rs)
            if not tail:
                return self.paren(s)
            return s
        rs = self.operand(r, L, left=False, tail=tail, nocomma=nocomma)
        s = self.j(ls, op_text(t), rs)
        if t[0] == "comma" and nocomma:
            return self.paren(s)
        return s

    def operand(self, c, L, left, tail, nocomma, body=False):
        if self.mode == "full" and (c[0] in BINARY or c[0] in ("label", "def", "neg")):
            return self.paren(self.term_inner(c))
        k = c[0]
        if k in BINARY:
            cl = level_of(c)
            need = False
            if cl == 2:      # a binding as operand
                if left:
                    need = True            # its body would swallow the rest
                elif not body and L > 2:
                    need = True            # `a + b as $x | c` groups as `(a + b) as $x | c`
                elif not tail:
                    need = True
            elif body:
                need = False               # body of a binding: anything goes
            elif L == 2 and left:
                # left of `as`: ordinary precedences apply (binding level is 2)
                need = cl <= 2
            elif cl < L:
                need = True
            elif cl == L:
                right_assoc = L in RIGHT_ASSOC
                need = (left and right_assoc) or (not left and not right_assoc)
            s = self.binary(c, tail and not need, nocomma and not need)
            if need:
                # inside parentheses everything is delimited again
                s = self.binary(c, True, False)
                return self.paren(s)
            return self.maybe_redundant(s)
        if k in ("label", "def"):
            s = self.open_right(c)
            if left or not tail or nocomma:
                return self.paren(s)
            return self.maybe_redundant(s)
        return self.maybe_redundant(self.atom(c))

    def term_inner(self, t):
        """text of t as if freshly delimited"""
        k = t[0]
        if k in BINARY:
            return self.binary(t, True, False)
        if k in ("label", "def"):
            return self.open_right(t)
        return self.atom(t)

    def delimited(self, t):
        if self.mode == "full" and (t[0] in BINARY or t[0] in ("label", "def")):
            return self.term_inner(t)
        return self.term(t, True, False)

    def open_right(self, t):
        if t[0] == "label":
            return self.j("label", t[1], "|", self.delimited(t[2]))
        defs = [self.def_text(d) for d in t[1]]
        return self.j(*defs, self.delimited(t[2]))

    def def_text(self, d):
        name, params, body = d
        head = name if not params else name + "(" + self.j(*_sep(list(params), ";")) + ")"
        return self.j("def", head + ":", self.delimited(body) + ";")

    def atomic(self, t):
        """t in a position that requires an atom (try body, fold source, negation, path head)"""
        k = t[0]
        if k in BINARY or k in ("label", "def"):
            return self.paren(self.term_inner(t))
        if k == "neg":
            # `try -1` is fine (atom), but keep it simple and explicit
            return self.atom(t)
        return self.atom(t)

    def atom(self, t):
        k = t[0]
        if k == "id":
            return "."
        if k == "rec":
            return ".."
        if k == "num":
            return t[1]
        if k == "var":
            return t[1]
        if k == "break":
            return self.j("break", t[1])
        if k == "str":
            return self.str_text(t)
        if k == "arr":
            return "[]" if t[1] is None else self.j("[", self.delimited(t[1]), "]")
        if k == "obj":
            if not t[1]:
                return "{}"
            return self.j("{", *_sep([self.obj_entry(kv) for kv in t[1]], ","), "}")
        if k == "neg":
            inner = t[1]
            s = self.atomic(inner)
            if inner[0] == "neg" or s.startswith("-"):
                s = " " + s
            return "-" + s
        if k == "call":
            if not t[2]:
                return t[1]
            return t[1] + "(" + self.j(*_sep([self.delimited(a) for a in t[2]], ";")) + ")"
        if k == "fold":
            _, kind, xs, pat, args = t
            head = self.j(kind, self.atomic(xs), "as", pattern_text(pat, self))
            if not args:
                # the parser accepts a fold without argument list (the compiler rejects it)
                return head
            return self.j(head, "(" + self.j(*_sep([self.delimited(a) for a in args], ";")) + ")")
        if k == "try":
            body, c = t[1], t[2]
            in_try = getattr(self, "_in_try", 0)
            if c is None and (in_try or (self.sugar and self.rng.random() < 0.5)):
                # postfix form f?  (binds tighter than prefix minus). Inside the body of an
                # enclosing `try` the prefix form without `catch` would capture that `catch`.
                return self.postfix_head(body) + "?"
            self._in_try = in_try + 1
            try:
                s = self.j("try", self.atomic_post(body))
            finally:
                self._in_try = in_try
            if c is not None:
                s = self.j(s, "catch", self.atomic_post(c))
            return s
        if k == "if":
            conds, e = t[1], t[2]
            parts = []
            for i, (c, th) in enumerate(conds):
                parts += ["if" if i == 0 else "elif", self.delimited(c), "then", self.delimited(th)]
            if e is not None:
                if e[0] == "if" and self.sugar and False:
                    pass
                parts += ["else", self.delimited(e)]
            parts.append("end")
            return self.j(*parts)
        if k == "path":
            return self.path_text(t)
        raise ValueError("cannot print %r" % (t,))

    def atomic_post(self, t):
        """operand of try/catch: an atom *with* its postfix; a trailing `?` or path belongs to it"""
        return self.atomic(t)

    def postfix_head(self, t):
        """something a postfix `?` or path suffix can be attached to"""
        k = t[0]
        if k in BINARY or k in ("label", "def", "neg", "try", "if", "fold", "break"):
            return self.paren(self.term_inner(t))
        if k == "path":
            return self.paren(self.term_inner(t))
        return self.atom(t)

    def str_text(self, t):
        _, fmt, parts = t
        out = []
        for p in parts:
            if p[0] == "s":
                out.append(quote(p[1], self.rng if self.trivia else None)[1:-1])
            else:
                out.append("\\(" + self.delimited(p[1]) + ")")
        s = '"' + "".join(out) + '"'
        if fmt is not None:
            return fmt + " " + s
        return s

    def obj_entry(self, kv):
        k, v = kv
        ks = plain_string(k)
        if v is None:
            if k[0] == "var":
                return k[1]
            if ks is not None and is_ident(ks) and self.sugar and self.rng.random() < 0.7:
                return ks
            return self.str_text(k)
        if k[0] == "var":
            kt = k[1]
        elif k[0] == "str":
            if ks is not None and is_ident(ks) and self.sugar and self.rng.random() < 0.6:
                kt = ks
            else:
                kt = self.str_text(k)
        else:
            kt = "(" + self.delimited(k) + ")"
        return self.j(kt + ":", self.term(v, True, True))

    def path_text(self, t):
        _, head, parts = t
        if head == ID:
            out = ""
            first = True
        else:
            out = self.postfix_head(head)
            first = False
        for (part, optional) in parts:
            if part[0] == "index":
                ks = plain_string(part[1])
                dot_ok = first or not (out and out[-1].isdigit())
                if ks is not None and is_ident(ks) and self.sugar and dot_ok and self.rng.random() < 0.7:
                    seg = "." + ks
                elif part[1][0] == "str" and self.sugar and dot_ok and self.rng.random() < 0.3:
                    seg = "." + self.str_text(part[1])
                else:
                    seg = ("." if first else ("." if dot_ok and self.rng.random() < 0.3 else "")) + \
                        "[" + self.delimited(part[1]) + "]"
            else:
                a, b = part[1], part[2]
                inner = (self.delimited(a) if a is not None else "") + (":" if (a is not None or b is not None) else "") + \
                    (self.delimited(b) if b is not None else "")
                dot_ok = first or not (out and out[-1].isdigit())
                seg = ("." if first else ("." if dot_ok and self.rng.random() < 0.3 else "")) + "[" + inner + "]"
            if optional:
                seg += "?"
            out += seg
            first = False
        return out


def _sep(items, sep):
    out = []
    for i, it in enumerate(items):
        out.append(it + sep if i + 1 < len(items) else it)
    return out


def pattern_text(p, pr):
    k = p[0]
    if k == "pvar":
        return p[1]
    if k == "parr":
        return "[" + ", ".join(pattern_text(q, pr) for q in p[1]) + "]"
    items = []
    for kt, q in p[1]:
        ks = plain_string(kt)
        if q[0] == "pvar" and ks is not None and q[1] == "$" + ks and pr.sugar and pr.rng.random() < 0.6:
            items.append(q[1])
            continue
        if kt[0] == "str":
            if ks is not None and is_ident(ks) and ks not in () and pr.sugar and pr.rng.random() < 0.5:
                ktxt = ks
            else:
                ktxt = pr.str_text(kt)
        elif kt[0] == "var":
            # `{$x: p}` is not a pattern form; use the general key form
            ktxt = "(" + kt[1] + ")"
        else:
            ktxt = "(" + pr.delimited(kt) + ")"
        items.append(ktxt + ": " + pattern_text(q, pr))
    return "{" + ", ".join(items) + "}"


def render(t, mode="min", rng=None, sugar=True, trivia=False):
    return Printer(mode, rng, sugar, trivia).term(t, True, False)


# -------------------------------------------------------------------------------------------
# from jaq's parse tree (JSON produced by `jaqmon parse`)

def _merge_parts(parts):
    out = []
    buf = []
    for p in parts:
        if p[0] in ("s", "c"):
            buf.append(p[1])
        else:
            if buf:
                out.append(("s", "".join(buf)))
                buf = []
            out.append(("t", from_parse(p[1])))
    if buf:
        out.append(("s", "".join(buf)))
    return tuple(x for x in out if not (x[0] == "s" and x[1] == ""))


def from_parse(j):
    k = j[0]
    if k == "id":
        return ID
    if k == "rec":
        return REC
    if k == "num":
        return ("num", j[1])
    if k == "str":
        return ("str", j[1], _merge_parts(j[2]))
    if k == "arr":
        return ("arr", None if j[1] is None else from_parse(j[1]))
    if k == "obj":
        return ("obj", tuple((from_parse(a), None if b is None else from_parse(b)) for a, b in j[1]))
    if k == "neg":
        return ("neg", from_parse(j[1]))
    if k == "bin":
        op, l, r = j[1], from_parse(j[2]), from_parse(j[3])
        if isinstance(op, list):
            if op[0] == "pipe":
                return ("pipe", l, None if op[1] is None else pat_from_parse(op[1]), r)
            if op[0] == "math":
                return ("math", op[1], l, r)
            if op[0] == "cmp":
                return ("cmp", op[1], l, r)
            if op[0] == "updmath":
                return ("updmath", op[1], l, r)
        return (op, l, r)
    if k == "label":
        return ("label", j[1], from_parse(j[2]))
    if k == "break":
        return ("break", j[1])
    if k == "fold":
        return ("fold", j[1], from_parse(j[2]), pat_from_parse(j[3]), tuple(from_parse(a) for a in j[4]))
    if k == "try":
        return ("try", from_parse(j[1]), None if j[2] is None else from_parse(j[2]))
    if k == "if":
        return ("if", tuple((from_parse(c), from_parse(t)) for c, t in j[1]), None if j[2] is None else from_parse(j[2]))
    if k == "def":
        return ("def", tuple((d[0], tuple(d[1]), from_parse(d[2])) for d in j[1]), from_parse(j[2]))
    if k == "call":
        return ("call", j[1], tuple(from_parse(a) for a in j[2]))
    if k == "var":
        return ("var", j[1])
    if k == "path":
        parts = []
        for part, optional in j[2]:
            if part[0] == "index":
                parts.append((("index", from_parse(part[1])), optional))
            else:
                parts.append((("range", None if part[1] is None else from_parse(part[1]),
                               None if part[2] is None else from_parse(part[2])), optional))
        return ("path", from_parse(j[1]), tuple(parts))
    raise ValueError(j)


def pat_from_parse(j):
    k = j[0]
    if k == "pvar":
        return ("pvar", j[1])
    if k == "parr":
        return ("parr", tuple(pat_from_parse(p) for p in j[1]))
    return ("pobj", tuple((from_parse(a), pat_from_parse(b)) for a, b in j[1]))


def normalize(t):
    """Canonical form shared by generator output and parser output: string parts merged;
    nested path nodes flattened the way the parser builds them (head . parts)."""
    if not isinstance(t, tuple):
        return t
    k = t[0] if t else None
    if k == "str":
        parts = []
        for p in t[2]:
            if p[0] == "s":
                if parts and parts[-1][0] == "s":
                    parts[-1] = ("s", parts[-1][1] + p[1])
                elif p[1] != "":
                    parts.append(p)
            else:
                parts.append(("t", normalize(p[1])))
        return ("str", t[1], tuple(parts))
    if k == "path":
        head = normalize(t[1])
        parts = tuple(((p[0],) + tuple(normalize(x) for x in p[1:]), o) for p, o in t[2])
        return ("path", head, parts)
    if k == "def":
        # `def a: ..; def b: ..; t` is one node with two definitions for the parser
        defs = tuple((n, ps, normalize(b)) for n, ps, b in t[1])
        body = normalize(t[2])
        if body[0] == "def":
            return ("def", defs + body[1], body[2])
        return ("def", defs, body)
    return tuple(normalize(x) for x in t)


def size(t):
    if not isinstance(t, tuple):
        return 0
    return 1 + sum(size(x) for x in t)


def subterms(t):
    """all term-valued sub-tuples (pre-order)"""
    if isinstance(t, tuple) and t and isinstance(t[0], str):
        yield t
    if isinstance(t, tuple):
        for x in t:
            yield from subterms(x)
