"""Extraction of the `code --> outputs` examples from docs/*.dj of the CURRENT tree
(the repository runs them only through docs/Makefile, not in its test suite)."""
import glob
import html
import os
import re

FILES = ["intro.dj", "cli.dj", "corelang.dj", "stdlib.dj", "advanced.dj", "formats.dj", "examples.dj"]


def code_spans(text):
    """yield the contents of inline code spans and of fenced code blocks without attributes"""
    i = 0
    n = len(text)
    at_line_start = True
    while i < n:
        c = text[i]
        if c == "`":
            j = i
            while j < n and text[j] == "`":
                j += 1
            ticks = j - i
            if ticks >= 3 and at_line_start_of(text, i):
                # fenced block: info string up to end of line
                eol = text.find("\n", j)
                if eol < 0:
                    break
                info = text[j:eol].strip()
                # closing fence
                m = re.compile(r"^[ \t]*`{%d,}[ \t]*$" % ticks, re.M).search(text, eol + 1)
                end = m.start() if m else n
                body = text[eol + 1:end]
                if not info:
                    yield body
                i = m.end() if m else n
                continue
            # inline: closing run of exactly `ticks`
            k = j
            while True:
                k = text.find("`" * ticks, k)
                if k < 0:
                    break
                e = k
                while e < n and text[e] == "`":
                    e += 1
                if e - k == ticks:
                    break
                k = e
            if k < 0:
                i = j
                continue
            yield text[j:k]
            i = k + ticks
            continue
        i += 1


def at_line_start_of(text, i):
    k = i - 1
    while k >= 0 and text[k] in " \t":
        k -= 1
    return k < 0 or text[k] == "\n"


def examples(repo="/repo"):
    """list of (file, code, outputs_text)"""
    out = []
    for f in FILES:
        p = os.path.join(repo, "docs", f)
        if not os.path.exists(p):
            continue
        text = open(p, encoding="utf-8").read()
        for span in code_spans(text):
            if "-->" not in span:
                continue
            if span.lstrip().startswith("$ "):
                continue
            parts = span.split("-->")
            if len(parts) < 2:
                continue
            code = re.sub(r"#[^\n]*", "", parts[0])
            # exactly what docs/tests.jq does: newlines are removed (not replaced), then trimmed
            code = code.replace("\n", "").strip()
            outs = parts[1].replace("\n", "").strip()
            if code:
                out.append((f, code, outs))
    return out
