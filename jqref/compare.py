"""Comparing what the reference prescribes with what jaq did (typed, position by position)."""
import math

from vlib import values as V
from vlib.codec import Dec, Obj, Str, dec, show

from .interp import TAINT


def match(ref, got):
    """ref: model value possibly containing TAINT; got: decoded jaq value.
    Numbers compare by mathematical value and integer / non-integer kind; strings by bytes and
    text/byte flag; objects as sets of entries (key order is judged elsewhere)."""
    if ref is TAINT:
        return isinstance(got, Str)
    if ref is None or ref is True or ref is False:
        return got is ref
    if V.is_int(ref):
        return V.is_int(got) and not isinstance(got, bool) and V.ival(ref) == V.ival(got)
    if isinstance(ref, (float, Dec)):
        if not isinstance(got, (float, Dec)):
            return False
        a, b = V.to_float(ref), V.to_float(got)
        if math.isnan(a) or math.isnan(b):
            return math.isnan(a) and math.isnan(b)
        return a == b
    if isinstance(ref, Str):
        return isinstance(got, Str) and got.b == ref.b and got.text == ref.text
    if isinstance(ref, list):
        return isinstance(got, list) and len(ref) == len(got) and all(match(a, b) for a, b in zip(ref, got))
    if isinstance(ref, Obj):
        if not isinstance(got, Obj) or len(ref.items) != len(got.items):
            return False
        used = [False] * len(got.items)
        for k, v in ref.items:
            found = False
            for i, (gk, gv) in enumerate(got.items):
                if not used[i] and match(k, gk):
                    if not match(v, gv):
                        return False
                    used[i] = True
                    found = True
                    break
            if not found:
                return False
        return True
    return False


def show_ref(v):
    if v is TAINT:
        return "<some message>"
    if isinstance(v, list):
        return "[" + ",".join(show_ref(x) for x in v) + "]"
    if isinstance(v, Obj):
        return "{" + ",".join("(%s):%s" % (show_ref(k), show_ref(x)) for k, x in v.items) + "}"
    return show(v)


def compare(ref_outs, ref_end, res):
    """returns None if jaq's observable behaviour is what the reference prescribes, else a
    short description. `res` is one case result of jaqmon eval."""
    if "panic" in res:
        return "panic: %s at %s" % (res["panic"].get("msg"), res["panic"].get("loc"))
    if "harness_error" in res:
        return "harness: " + res["harness_error"]
    outs = res["outs"]
    end = res["end"]
    n = min(len(ref_outs), len(outs))
    for i in range(n):
        g = dec(outs[i][0])
        if not match(ref_outs[i], g):
            return "output %d: expected %s, got %s" % (i, show_ref(ref_outs[i]), show(g))
    kind = ref_end[0]
    if kind in ("prefix", "cut"):
        if len(outs) < len(ref_outs):
            return "stream ended (%s) after %d outputs, expected at least %d" % (end[0], len(outs), len(ref_outs))
        return None
    if len(outs) > len(ref_outs):
        return "extra output %d: %s (expected %s)" % (len(ref_outs), show(dec(outs[len(ref_outs)][0])), kind)
    if len(outs) < len(ref_outs):
        return "stream ended (%s) after %d outputs, expected %d" % (end, len(outs), len(ref_outs))
    if kind == "end":
        if end[0] != "end":
            return "expected normal end, got %s" % (end[:2] + end[3:] if end[0] == "error" else end,)
        return None
    if kind == "error":
        if end[0] != "error":
            return "expected an error, got %s" % (end,)
        payload, builtin = ref_end[1], ref_end[2]
        if not builtin:
            g = dec(end[2])
            if not match(payload, g):
                return "error payload: expected %s, got %s" % (show_ref(payload), show(g))
        return None
    if kind == "halt":
        if end[0] != "halt" or end[1] != ref_end[1]:
            return "expected halt(%s), got %s" % (ref_end[1], end)
        return None
    return "unknown reference end %r" % (ref_end,)
