"""jqref — the manual made executable: a lazy definitional interpreter over `G`.

Every rule is a sentence of docs/corelang.dj, docs/advanced.dj or docs/stdlib.dj. Outputs are
produced by Python generators, so "the first error ends the stream", "outputs before it are
delivered" and the left-to-right order of effects are the definition here, not an
implementation choice. Never reads the Rust sources or defs.jq.

Exceptions travelling through the generator chain:
  JqError      an error value (payload exact for user errors; TAINT for built-in errors whose
               text the manual does not define)
  BreakExc     `break $x`
  HaltExc      `halt` / `halt($c)`
  Fuel         step budget exhausted      -> the *case* is skipped, never a verdict
  Unspecified  the manual does not say    -> the *case* is skipped
  Cut          control flow would depend on the text of a built-in error message -> the case is
               compared only up to the outputs delivered so far
"""
import math

from vlib import values as V
from vlib.codec import Dec, Obj, Str
from vlib.values import JqError, Unspecified


class BreakExc(Exception):
    def __init__(self, token):
        super().__init__("break")
        self.token = token


class HaltExc(Exception):
    def __init__(self, code):
        super().__init__("halt")
        self.code = code


class Fuel(Exception):
    pass


class Cut(Exception):
    pass


class CompileError(Exception):
    """undefined name / wrong arity: the generator produced an ill-scoped program"""


class Tainted:
    """the value of a built-in error message: some string we do not know"""

    def __repr__(self):
        return "TAINT"


TAINT = Tainted()


def has_taint(v):
    if v is TAINT:
        return True
    if isinstance(v, list):
        return any(has_taint(x) for x in v)
    if isinstance(v, Obj):
        return any(has_taint(k) or has_taint(x) for k, x in v.items)
    return False


def builtin_error():
    return JqError(TAINT, True)


def user_error(v):
    return JqError(v, False)


class Closure:
    __slots__ = ("params", "body", "env")

    def __init__(self, params, body, env):
        self.params, self.body, self.env = params, body, env


class Arg:
    """a filter argument: term + the caller's environment"""
    __slots__ = ("term", "env")

    def __init__(self, term, env):
        self.term, self.env = term, env


class Lazy:
    """lazily memoised list over a generator; an exception raised by the generator is
    re-raised at the position where it occurred, every time that position is reached"""

    def __init__(self, gen):
        self.gen = gen
        self.items = []
        self.done = False
        self.exc = None

    def get(self, i):
        while len(self.items) <= i and not self.done:
            try:
                self.items.append(next(self.gen))
            except StopIteration:
                self.done = True
            except (JqError, BreakExc, HaltExc) as e:
                self.done = True
                self.exc = e
        if i < len(self.items):
            return True, self.items[i]
        if self.exc is not None:
            raise self.exc
        return False, None


def guard_taint(*vs):
    for v in vs:
        if has_taint(v):
            raise Cut()


def wrap_value_errors(f):
    """value-level primitives raise JqError() without payload: make it a built-in error"""
    def g(*a):
        try:
            return f(*a)
        except JqError as e:
            if e.payload is None and e.builtin:
                raise builtin_error()
            raise
    return g


class Interp:
    def __init__(self, fuel=200000, globals_=None, inputs=None):
        self.fuel = fuel
        self.steps = 0
        self.fx = []            # (marker id, outputs delivered when it fired)
        self.entries = []       # (id of a path-expression node, outputs delivered when its evaluation began)
        self.trace = []         # per delivered output: (len(fx), inputs pulled, ticks)
        self.delivered = 0
        self.ticks = 0
        self.pulled = 0
        self.inputs = iter(inputs or [])
        self.env0 = {}
        for k, v in (globals_ or {}).items():
            self.env0["$" + k.lstrip("$")] = v

    # -----------------------------------------------------------------------------------
    def step(self, n=1):
        self.steps += n
        if self.steps > self.fuel:
            raise Fuel()

    def main(self, t, v, take=1 << 30):
        """returns (outputs, end) with end = ('end',) | ('cut',) | ('error', payload|TAINT, builtin)
        | ('halt', code) | ('prefix',) for a Cut; raises Fuel / Unspecified / CompileError."""
        outs = []
        self.delivered = 0
        g = self.run(t, self.env0, v)
        try:
            while len(outs) < take:
                try:
                    y = next(g)
                except StopIteration:
                    return outs, ("end",)
                outs.append(y)
                self.delivered = len(outs)
                self.trace.append((len(self.fx), self.pulled, self.ticks))
            return outs, ("cut",)
        except JqError as e:
            return outs, ("error", e.payload, e.builtin)
        except HaltExc as h:
            return outs, ("halt", h.code)
        except Cut:
            return outs, ("prefix",)
        except BreakExc:
            raise CompileError("break escaped")
        except RecursionError:
            raise Fuel()

    # -----------------------------------------------------------------------------------
    # run
    def run(self, t, env, v):
        self.step()
        k = t[0]
        m = getattr(self, "run_" + k)
        return m(t, env, v)

    def run_id(self, t, env, v):
        yield v

    def run_rec(self, t, env, v):
        # `..` yields the same outputs as recurse == recurse(.[]?)
        yield v
        if isinstance(v, (list, Obj)):
            for c in V.iterate(v):
                yield from self.run_rec(t, env, c)
                self.step()

    def run_num(self, t, env, v):
        yield parse_num(t[1])

    def run_str(self, t, env, v):
        _, fmt, parts = t
        if not any(p[0] == "t" for p in parts):
            yield Str("".join(p[1] for p in parts).encode("utf-8"), True)
            return
        # "..\(f).." == ".." + (f | tostring) + ".."   (left-assoc sum; @x: f | @x)
        def rec(i, acc):
            if i == len(parts):
                yield acc
                return
            p = parts[i]
            if p[0] == "s":
                yield from rec(i + 1, concat_str(acc, Str(p[1].encode("utf-8"), True)))
            else:
                for y in self.run(p[1], env, v):
                    if fmt is None:
                        s = self.tostring(y)
                    else:
                        s = self.format(fmt, y)
                    yield from rec(i + 1, concat_str(acc, s))
        yield from rec(0, Str(b"", True))

    def run_arr(self, t, env, v):
        if t[1] is None:
            yield []
        else:
            yield list(self.run(t[1], env, v))

    def run_obj(self, t, env, v):
        entries = t[1]
        # {(k1): v1, ..., (kn): vn} == {(k1): v1} + ... + {(kn): vn}
        def rec(i, acc):
            if i == len(entries):
                yield acc
                return
            kt, vt = entries[i]
            if vt is None:
                if kt[0] == "var":
                    name = kt[1][1:]
                    if kt[1] not in env:
                        raise CompileError("undefined variable " + kt[1])
                    yield from rec(i + 1, V.obj_set(acc, Str(name.encode(), True), env[kt[1]]))
                    return
                # {k} == {k: .k}  (both occurrences of k are evaluated)
                vt = ("path", ("id",), ((("index", kt), False),))
            for kk in self.run(kt, env, v):
                for vv in self.run(vt, env, v):
                    if has_taint(kk):
                        raise Cut()
                    if V.has_nan(kk):
                        raise Unspecified("NaN as key")
                    yield from rec(i + 1, V.obj_set(acc, kk, vv))
        yield from rec(0, Obj([]))

    def run_neg(self, t, env, v):
        for x in self.run(t[1], env, v):
            guard_taint(x)
            yield neg(x)

    def run_pipe(self, t, env, v):
        _, l, pat, r = t
        if pat is None:
            for y in self.run(l, env, v):
                yield from self.run(r, env, y)
        else:
            for y in self.run(l, env, v):
                for env2 in self.bind(pat, env, y, env):
                    yield from self.run(r, env2, v)

    def run_comma(self, t, env, v):
        yield from self.run(t[1], env, v)
        yield from self.run(t[2], env, v)

    def run_alt(self, t, env, v):
        any_true = False
        try:
            for y in self.run(t[1], env, v):
                if truthy(y):
                    any_true = True
                    yield y
        except JqError:
            # errors raised inside the left operand of `//`: the manual is silent
            raise Unspecified("error in left operand of //")
        if not any_true:
            yield from self.run(t[2], env, v)

    def run_or(self, t, env, v):
        for x in self.run(t[1], env, v):
            if truthy(x):
                yield True
            else:
                for y in self.run(t[2], env, v):
                    yield truthy(y)

    def run_and(self, t, env, v):
        for x in self.run(t[1], env, v):
            if not truthy(x):
                yield False
            else:
                for y in self.run(t[2], env, v):
                    yield truthy(y)

    def run_math(self, t, env, v):
        _, op, l, r = t
        for x in self.run(l, env, v):
            for y in self.run(r, env, v):
                yield self.math(op, x, y)

    def math(self, op, x, y):
        if x is TAINT or y is TAINT:
            if op == "+" and (x is None or y is None or isinstance(x, Str) or isinstance(y, Str) or (x is TAINT and y is TAINT)):
                if (x is TAINT or isinstance(x, Str) and x.text or x is None) and (y is TAINT or isinstance(y, Str) and y.text or y is None):
                    return TAINT
            raise Cut()
        guard_taint(x, y)
        return math_op(op, x, y)

    def run_cmp(self, t, env, v):
        _, op, l, r = t
        for x in self.run(l, env, v):
            for y in self.run(r, env, v):
                yield self.compare(op, x, y)

    def compare(self, op, x, y):
        if has_taint(x) or has_taint(y):
            # a message is some string: the outcome is known when the other side is not a string
            if x is TAINT and y is not TAINT and not has_taint(y) and not isinstance(y, Str):
                c = -1 if V.KIND_RANK[V.kind(y)] > 3 else 1
            elif y is TAINT and x is not TAINT and not has_taint(x) and not isinstance(x, Str):
                c = 1 if V.KIND_RANK[V.kind(x)] > 3 else -1
            else:
                raise Cut()
            e = False
        else:
            if not V.cmp_in_domain(x, y):
                raise Unspecified("comparison outside the documented domain")
            c = V.cmp(x, y)
            e = V.eq(x, y)
        if op == "==":
            return e
        if op == "!=":
            return not e
        if op == "<":
            return c < 0
        if op == "<=":
            return c < 0 or e
        if op == ">":
            return c > 0
        return c > 0 or e

    def run_assign(self, t, env, v):
        _, p, g = t
        for y in self.run(g, env, v):
            yield from self.update(p, env, v, lambda x, y=y: iter((y,)))

    def run_update(self, t, env, v):
        _, p, u = t
        yield from self.update(p, env, v, lambda x: self.run(u, env, x))

    def run_updmath(self, t, env, v):
        _, op, p, g = t
        for y in self.run(g, env, v):
            yield from self.update(p, env, v, lambda x, y=y: iter((self.math(op, x, y),)))

    def run_updalt(self, t, env, v):
        _, p, g = t
        for y in self.run(g, env, v):
            yield from self.update(p, env, v, lambda x, y=y: iter((x if truthy(x) else y,)))

    def run_label(self, t, env, v):
        token = object()
        env2 = dict(env)
        env2[("L", t[1])] = token
        try:
            yield from self.run(t[2], env2, v)
        except BreakExc as b:
            if b.token is not token:
                raise

    def run_break(self, t, env, v):
        token = env.get(("L", t[1]))
        if token is None:
            raise CompileError("undefined label " + t[1])
        raise BreakExc(token)
        yield  # pragma: no cover

    def run_fold(self, t, env, v):
        _, kind, xs, pat, args = t
        if kind == "reduce":
            if len(args) != 2:
                raise CompileError("reduce arity")
            init, upd = args
            proj = None
        else:
            if len(args) not in (2, 3):
                raise CompileError("foreach arity")
            init, upd = args[0], args[1]
            proj = args[2] if len(args) == 3 else ("id",)
        envs = Lazy(self.bound_envs(xs, pat, env, v))
        for i in self.run(init, env, v):
            if kind == "reduce":
                yield from self.reduce_from(envs, 0, upd, i)
            else:
                yield from self.foreach_from(envs, 0, upd, proj, i)

    def bound_envs(self, xs, pat, env, v):
        for x in self.run(xs, env, v):
            yield from self.bind(pat, env, x, env)

    def reduce_from(self, envs, k, upd, acc):
        # init | x1 as $x | update | ... | xn as $x | update
        self.step()
        ok, e = envs.get(k)
        if not ok:
            yield acc
            return
        for y in self.run(upd, e, acc):
            yield from self.reduce_from(envs, k + 1, upd, y)

    def foreach_from(self, envs, k, upd, proj, acc):
        # x_k as $x | update | (project, (x_k+1 as $x | ...))
        self.step()
        ok, e = envs.get(k)
        if not ok:
            return
        for y in self.run(upd, e, acc):
            yield from self.run(proj, e, y)
            yield from self.foreach_from(envs, k + 1, upd, proj, y)

    def run_try(self, t, env, v):
        _, f, c = t
        try:
            yield from self.run(f, env, v)
        except JqError as e:
            if c is not None:
                yield from self.run(c, env, e.payload)

    def run_if(self, t, env, v):
        conds, e = t[1], t[2]

        def rec(i):
            if i == len(conds):
                if e is None:
                    yield v
                else:
                    yield from self.run(e, env, v)
                return
            c, th = conds[i]
            for b in self.run(c, env, v):
                if truthy(b):
                    yield from self.run(th, env, v)
                else:
                    yield from rec(i + 1)
        yield from rec(0)

    def run_def(self, t, env, v):
        yield from self.run(t[2], self.with_defs(t[1], env), v)

    def with_defs(self, defs, env):
        for name, params, body in defs:
            env = dict(env)
            clo = Closure(params, body, env)
            env[("f", name, len(params))] = clo
        return env

    def run_var(self, t, env, v):
        x = t[1]
        if x not in env:
            raise CompileError("undefined variable " + x)
        yield env[x]

    def run_call(self, t, env, v):
        _, name, args = t
        target = env.get(("f", name, len(args)))
        if target is None:
            nat = NATIVES.get((name, len(args)))
            if nat is None:
                raise CompileError("undefined filter %s/%d" % (name, len(args)))
            return nat(self, [Arg(a, env) for a in args], v, "run", None)
        if isinstance(target, Arg):
            return self.run(target.term, target.env, v)
        return self.call_closure(target, args, env, v, lambda body, e, x: self.run(body, e, x))

    def call_closure(self, clo, args, env, v, cont):
        """bind parameters (variable parameters as the cartesian product of the argument
        outputs on the caller's input, first parameter outermost), then continue in body"""
        def rec(i, e):
            if i == len(clo.params):
                yield from cont(clo.body, e, v)
                return
            p = clo.params[i]
            if p.startswith("$"):
                for y in self.run(args[i], env, v):
                    e2 = dict(e)
                    e2[p] = y
                    yield from rec(i + 1, e2)
            else:
                e2 = dict(e)
                e2[("f", p, 0)] = Arg(args[i], env)
                yield from rec(i + 1, e2)
        return rec(0, clo.env)

    def run_path(self, t, env, v):
        _, f, parts = t
        self.entries.append((id(t), self.delivered))
        # f[x][y:z]? == f as $f | x as $x | y as $y | z as $z | $f | .[$x] | .[$y:$z]?
        for y in self.run(f, env, v):
            for chain in self.index_combos(parts, env, v):
                yield from self.apply_chain(chain, y)

    def index_combos(self, parts, env, v):
        def rec(i, acc):
            if i == len(parts):
                yield acc
                return
            (part, optional) = parts[i]
            if part[0] == "index":
                for x in self.run(part[1], env, v):
                    yield from rec(i + 1, acc + [("index", x, optional)])
            else:
                a, b = part[1], part[2]
                for x in (self.run(a, env, v) if a is not None else iter((MISSING,))):
                    for y in (self.run(b, env, v) if b is not None else iter((MISSING,))):
                        yield from rec(i + 1, acc + [("range", x, y, optional)])
        yield from rec(0, [])

    def apply_chain(self, chain, y):
        def rec(i, cur):
            if i == len(chain):
                yield cur
                return
            c = chain[i]
            try:
                nexts = list(self.apply_part(c, cur))
            except JqError:
                if c[-1]:
                    return
                raise
            for n in nexts:
                yield from rec(i + 1, n)
        yield from rec(0, y)

    def apply_part(self, c, cur):
        if c[0] == "index":
            guard_taint(c[1])
            if cur is TAINT:
                raise Cut()
            yield vindex(cur, c[1])
        else:
            a = None if c[1] is MISSING else c[1]
            b = None if c[2] is MISSING else c[2]
            guard_taint(a, b)
            if cur is TAINT:
                raise Cut()
            if a is None and b is None and c[1] is MISSING and c[2] is MISSING:
                for x in viterate(cur):
                    yield x
            else:
                yield vslice(cur, a, b)

    # -----------------------------------------------------------------------------------
    # patterns (advanced §Patterns)
    def bind(self, pat, env, val, kenv):
        """yields environments; computed keys run on the value matched by the parent pattern
        in the environment *before* the pattern (`kenv`)"""
        k = pat[0]
        if k == "pvar":
            e = dict(env)
            e[pat[1]] = val
            yield e
        elif k == "parr":
            # [p0, ..., pn] == {(0): p0, ..., (n): pn}
            entries = tuple((("num", str(i)), p) for i, p in enumerate(pat[1]))
            yield from self.bind(("pobj", entries), env, val, kenv)
        else:
            entries = pat[1]

            def rec(i, e):
                if i == len(entries):
                    yield e
                    return
                kt, p = entries[i]
                for kk in self.run(kt, kenv, val):
                    guard_taint(kk, val)
                    sub = vindex(val, kk)
                    for e2 in self.bind(p, e, sub, kenv):
                        yield from rec(i + 1, e2)
            yield from rec(0, env)

    # -----------------------------------------------------------------------------------
    # paths (advanced §Path-based, table row by row)
    def paths(self, t, env, v, p):
        self.step()
        k = t[0]
        if k == "id":
            yield (v, p)
        elif k == "rec":
            yield from self.paths_rec(v, p)
        elif k == "pipe":
            _, l, pat, r = t
            if pat is None:
                for (y, q) in self.paths(l, env, v, p):
                    yield from self.paths(r, env, y, q)
            else:
                for y in self.run(l, env, v):
                    for env2 in self.bind(pat, env, y, env):
                        yield from self.paths(r, env2, v, p)
        elif k == "comma":
            yield from self.paths(t[1], env, v, p)
            yield from self.paths(t[2], env, v, p)
        elif k == "alt":
            # path(if first(f // false) then f else g end)
            try:
                cond = any(truthy(y) for y in self.run(t[1], env, v))
            except JqError:
                raise Unspecified("error in left operand of //")
            yield from self.paths(t[1] if cond else t[2], env, v, p)
        elif k == "if":
            conds, e = t[1], t[2]

            def rec(i):
                if i == len(conds):
                    if e is None:
                        yield (v, p)
                    else:
                        yield from self.paths(e, env, v, p)
                    return
                c, th = conds[i]
                for b in self.run(c, env, v):
                    if truthy(b):
                        yield from self.paths(th, env, v, p)
                    else:
                        yield from rec(i + 1)
            yield from rec(0)
        elif k == "try":
            # try path(f) catch (g | error)
            _, f, c = t
            try:
                yield from self.paths(f, env, v, p)
            except JqError as e:
                if c is not None:
                    for y in self.run(c, env, e.payload):
                        raise user_error(y)
        elif k == "label":
            token = object()
            env2 = dict(env)
            env2[("L", t[1])] = token
            try:
                yield from self.paths(t[2], env2, v, p)
            except BreakExc as b:
                if b.token is not token:
                    raise
        elif k == "break":
            yield from self.run_break(t, env, v)
        elif k == "path":
            _, f, parts = t
            self.entries.append((id(t), self.delivered))
            for (y, q) in self.paths(f, env, v, p):
                for chain in self.index_combos(parts, env, v):
                    yield from self.paths_chain(chain, y, q)
        elif k == "fold":
            yield from self.paths_fold(t, env, v, p)
        elif k == "def":
            yield from self.paths(t[2], self.with_defs(t[1], env), v, p)
        elif k == "call":
            _, name, args = t
            target = env.get(("f", name, len(args)))
            if target is None:
                nat = NATIVES.get((name, len(args)))
                if nat is None:
                    raise CompileError("undefined filter %s/%d" % (name, len(args)))
                yield from nat(self, [Arg(a, env) for a in args], v, "paths", p)
            elif isinstance(target, Arg):
                yield from self.paths(target.term, target.env, v, p)
            else:
                yield from self.call_closure(target, args, env, v, lambda body, e, x: self.paths(body, e, x, p))
        elif k == "var":
            if t[1] not in env:
                raise CompileError("undefined variable " + t[1])
            raise builtin_error()
        else:
            # everything else constructs new values: path(...) fails rather than guesses
            raise builtin_error()

    def paths_rec(self, v, p):
        yield (v, p)
        if isinstance(v, (list, Obj)):
            for kk, c in V.key_values(v):
                yield from self.paths_rec(c, p + (kk,))
                self.step()

    def paths_chain(self, chain, y, q):
        def rec(i, cur, path):
            if i == len(chain):
                yield (cur, path)
                return
            c = chain[i]
            try:
                nexts = list(self.paths_part(c, cur, path))
            except JqError:
                if c[-1]:
                    return
                raise
            for (n, np) in nexts:
                yield from rec(i + 1, n, np)
        yield from rec(0, y, q)

    def paths_part(self, c, cur, path):
        if cur is TAINT:
            raise Cut()
        if c[0] == "index":
            guard_taint(c[1])
            yield (vindex(cur, c[1]), path + (c[1],))
        else:
            if c[1] is MISSING and c[2] is MISSING:
                for kk, x in vkey_values(cur):
                    yield (x, path + (kk,))
            else:
                a = None if c[1] is MISSING else c[1]
                b = None if c[2] is MISSING else c[2]
                guard_taint(a, b)
                items = []
                if c[1] is not MISSING:
                    items.append((Str(b"start", True), c[1]))
                if c[2] is not MISSING:
                    items.append((Str(b"end", True), c[2]))
                yield (vslice(cur, a, b), path + (Obj(items),))

    def paths_fold(self, t, env, v, p):
        _, kind, xs, pat, args = t
        if kind == "reduce":
            if len(args) != 2:
                raise CompileError("reduce arity")
            init, upd = args
            proj = None
        else:
            if len(args) not in (2, 3):
                raise CompileError("foreach arity")
            init, upd = args[0], args[1]
            proj = args[2] if len(args) == 3 else ("id",)
        envs = Lazy(self.bound_envs(xs, pat, env, v))

        def red(k, acc, q):
            self.step()
            ok, e = envs.get(k)
            if not ok:
                yield (acc, q)
                return
            for (y, q2) in self.paths(upd, e, acc, q):
                yield from red(k + 1, y, q2)

        def fe(k, acc, q):
            self.step()
            ok, e = envs.get(k)
            if not ok:
                return
            for (y, q2) in self.paths(upd, e, acc, q):
                yield from self.paths(proj, e, y, q2)
                yield from fe(k + 1, y, q2)
        for (i, q) in self.paths(init, env, v, p):
            if kind == "reduce":
                yield from red(0, i, q)
            else:
                yield from fe(0, i, q)

    # -----------------------------------------------------------------------------------
    # updates (advanced §Pathless, table row by row). u: value -> iterator of values
    def update(self, t, env, v, u):
        self.step()
        k = t[0]
        if k == "id":
            yield from u(v)
        elif k == "rec":
            # def rec_up: (.[]? | rec_up), .; rec_up |= u
            yield from self.update_rec(v, u)
        elif k == "pipe":
            _, l, pat, r = t
            if pat is None:
                # (f | g) |= u  ==  f |= (g |= u)
                yield from self.update(l, env, v, lambda x: self.update(r, env, x, u))
            else:
                # (f1 as $x | g) |= u | ... | (fn as $x | g) |= u
                envs = Lazy(self.bound_envs(l, pat, env, v))
                yield from self.update_seq(envs, 0, v, lambda e, x: self.update(r, e, x, u))
        elif k == "comma":
            # (f, g) |= u  ==  (f |= u) | (g |= u)
            for y in self.update(t[1], env, v, u):
                yield from self.update(t[2], env, y, u)
        elif k == "alt":
            try:
                cond = any(truthy(y) for y in self.run(t[1], env, v))
            except JqError:
                raise Unspecified("error in left operand of //")
            yield from self.update(t[1] if cond else t[2], env, v, u)
        elif k == "if":
            # if $p then f |= u else g |= u end, binding by binding for each output of the condition
            conds, e = t[1], t[2]
            yield from self.update_if(conds, e, 0, env, v, u)
        elif k == "path":
            _, f, parts = t
            self.entries.append((id(t), self.delivered))
            combos = Lazy(self.index_combos(parts, env, v))

            def inner(x):
                yield from self.update_seq(combos, 0, x, lambda chain, y: self.update_chain(chain, 0, y, u))
            yield from self.update(f, env, v, inner)
        elif k == "fold":
            yield from self.update_fold(t, env, v, u)
        elif k == "def":
            yield from self.update(t[2], self.with_defs(t[1], env), v, u)
        elif k == "call":
            _, name, args = t
            target = env.get(("f", name, len(args)))
            if target is None:
                nat = NATIVES.get((name, len(args)))
                if nat is None:
                    raise CompileError("undefined filter %s/%d" % (name, len(args)))
                yield from nat(self, [Arg(a, env) for a in args], v, "update", u)
            elif isinstance(target, Arg):
                yield from self.update(target.term, target.env, v, u)
            else:
                # variable parameters: binding by binding, like `f as $x | g`
                bodies = Lazy(self.call_closure(target, args, env, v, lambda body, e, x: iter(((body, e),))))
                yield from self.update_seq(bodies, 0, v, lambda be, x: self.update(be[0], be[1], x, u))
        elif k == "break":
            yield from self.run_break(t, env, v)
        elif k == "var":
            if t[1] not in env:
                raise CompileError("undefined variable " + t[1])
            raise builtin_error()
        elif k in ("try", "label"):
            # documented as unsupported on the left-hand side of updates
            raise builtin_error()
        else:
            raise builtin_error()

    def update_seq(self, lazy, k, v, f):
        """(item_k |= u) | (item_k+1 |= u) | ... as a pipe over the outputs"""
        self.step()
        ok, item = lazy.get(k)
        if not ok:
            yield v
            return
        for y in f(item, v):
            yield from self.update_seq(lazy, k + 1, y, f)

    def update_if(self, conds, e, i, env, v, u):
        if i == len(conds):
            if e is None:
                yield from u(v)
            else:
                yield from self.update(e, env, v, u)
            return
        c, th = conds[i]
        bs = Lazy(self.run(c, env, v))

        def f(b, x):
            if truthy(b):
                return self.update(th, env, x, u)
            return self.update_if(conds, e, i + 1, env, x, u)
        yield from self.update_seq(bs, 0, v, f)

    def update_rec(self, v, u):
        # ((.[]? | rec_up) |= u) | u   ==   (.[]? |= (rec_up |= u)) | u
        for y in iter_upd(v, lambda c: self.update_rec(c, u), optional=True):
            yield from u(y)

    def update_chain(self, chain, i, v, u):
        self.step()
        if i == len(chain):
            yield from u(v)
            return
        c = chain[i]
        rest = lambda x: self.update_chain(chain, i + 1, x, u)
        optional = c[-1]
        if v is TAINT:
            raise Cut()
        if c[0] == "index":
            guard_taint(c[1])
            yield from index_upd(v, c[1], rest, optional)
        elif c[1] is MISSING and c[2] is MISSING:
            yield from iter_upd(v, rest, optional)
        else:
            a = None if c[1] is MISSING else c[1]
            b = None if c[2] is MISSING else c[2]
            guard_taint(a, b)
            yield from slice_upd(v, a, b, rest, optional)

    def update_fold(self, t, env, v, u):
        _, kind, xs, pat, args = t
        if kind == "reduce":
            if len(args) != 2:
                raise CompileError("reduce arity")
            init, upd = args
            proj = None
        else:
            if len(args) not in (2, 3):
                raise CompileError("foreach arity")
            init, upd = args[0], args[1]
            proj = args[2] if len(args) == 3 else ("id",)
        envs = Lazy(self.bound_envs(xs, pat, env, v))

        def red(k, a):
            # (x_k as $x | update | rest) |= u
            self.step()
            ok, e = envs.get(k)
            if not ok:
                return u(a)
            return self.update(upd, e, a, lambda b: red(k + 1, b))

        def fe(k, a):
            # (x_k as $x | update | (project, rest)) |= u ; the empty tail: empty |= u == .
            self.step()
            ok, e = envs.get(k)
            if not ok:
                return iter((a,))

            def after_upd(b):
                for c in self.update(proj, e, b, u):
                    yield from fe(k + 1, c)
            return self.update(upd, e, a, after_upd)
        if kind == "reduce":
            yield from self.update(init, env, v, lambda a: red(0, a))
        else:
            yield from self.update(init, env, v, lambda a: fe(0, a))

    # -----------------------------------------------------------------------------------
    def tostring(self, y):
        if y is TAINT:
            return TAINT
        if has_taint(y):
            return TAINT
        if isinstance(y, Str):
            return Str(y.b, True)
        return Str(tojson(y).encode("utf-8", "surrogateescape"), True)

    def format(self, fmt, y):
        f = FORMATS.get(fmt)
        if f is None:
            raise Unspecified("format " + fmt)
        guard_taint(y)
        return f(self, y)


MISSING = V.MISSING


def truthy(v):
    if v is TAINT:
        return True
    return V.truthy(v)


def concat_str(a, b):
    if a is TAINT or b is TAINT:
        return TAINT
    return Str(a.b + b.b, True)


def parse_num(text):
    if text.isdigit():
        return int(text)
    return Dec(text)


vindex = wrap_value_errors(V.index)
vslice = wrap_value_errors(V.slice_)
viterate = wrap_value_errors(V.iterate)
vkey_values = wrap_value_errors(V.key_values)
neg = wrap_value_errors(V.neg)


def math_op(op, x, y):
    try:
        return V.MATH[op](x, y)
    except JqError as e:
        if e.payload is None and e.builtin:
            raise builtin_error()
        raise


# ---------------------------------------------------------------------------------------
# iter_upd / index_upd / slice_upd  (advanced §Pathless, the three displayed definitions)

def _fail(v, optional):
    if optional:
        return iter((v,))
    raise builtin_error()


def iter_upd(v, u, optional=False):
    """if isarray then [.[] | u] elif isobject then with_entries(.value |= u) else fail"""
    if isinstance(v, list):
        out = []
        for x in v:
            out.extend(u(x))
        yield out
    elif isinstance(v, Obj):
        # with_entries(.value |= u): `.value |= u` on an entry object keeps the first output
        # of u, and deletes the *value key* when u is empty -> from_entries then sees an entry
        # without value... the manual's examples (select) show the entry is dropped
        items = []
        for k, x in v.items:
            for y in u(x):
                items.append((k, y))
                break
        yield Obj(items)
    else:
        yield from _fail(v, optional)


def index_upd(v, i, u, optional=False):
    if isinstance(v, (Str, list)) and isinstance(i, Obj):
        a, b = V._start_end(i)
        yield from slice_upd(v, a, b, u, optional)
    elif isinstance(v, list):
        if not V.is_int(i):
            yield from _fail(v, optional)
            return
        n = len(v)
        j = V.ival(i)
        if -n <= j < 0:
            j += n
        if 0 <= j < n:
            first = next(iter(u(v[j])), MISSING)
            yield v[:j] + ([first] if first is not MISSING else []) + v[j + 1:]
        else:
            yield from _fail(v, optional)
    elif isinstance(v, Obj):
        if V.has_nan(i):
            raise Unspecified("NaN as key")
        cur = V.obj_get(v, i)
        if cur is not MISSING:
            first = next(iter(u(cur)), MISSING)
            items = []
            for k, x in v.items:
                if V.eq(k, i):
                    if first is not MISSING:
                        items.append((k, first))
                else:
                    items.append((k, x))
            yield Obj(items)
        else:
            first = next(iter(u(None)), MISSING)
            if first is MISSING:
                yield v
            else:
                yield Obj(list(v.items) + [(i, first)])
    else:
        yield from _fail(v, optional)


def slice_upd(v, a, b, u, optional=False):
    """([.[:$i], .[$i:$j], .[$j:]]? | .[1] |= u | add) // fail"""
    if not isinstance(v, (list, Str)):
        yield from _fail(v, optional)
        return
    try:
        units = V.seq_of(v)
        n = len(units)
        lo = V.clip_bound(a, n, 0)
        hi = V.clip_bound(b, n, n)
    except JqError:
        yield from _fail(v, optional)
        return
    if hi < lo:
        hi = lo
    mid = V.seq_back(v, units[lo:hi])
    first = next(iter(u(mid)), MISSING)
    if first is MISSING:
        yield V.seq_back(v, units[:lo] + units[hi:])
        return
    if first is TAINT:
        # an unknown message spliced into a text string: some string we do not know
        if isinstance(v, Str) and v.text:
            yield TAINT
            return
        raise builtin_error()
    if isinstance(v, list):
        if not isinstance(first, list):
            raise builtin_error()
        yield units[:lo] + list(first) + units[hi:]
    else:
        if not isinstance(first, Str) or first.text != v.text:
            raise builtin_error()
        left = V.seq_back(v, units[:lo])
        right = V.seq_back(v, units[hi:])
        yield Str(left.b + first.b + right.b, v.text)


# ---------------------------------------------------------------------------------------
# printing (formats §XJON): tojson

def fmt_float(f):
    if math.isnan(f):
        return "NaN"
    if math.isinf(f):
        return "Infinity" if f > 0 else "-Infinity"
    if f == 0:
        return "-0.0" if math.copysign(1, f) < 0 else "0.0"
    r = repr(abs(f))
    sign = "-" if f < 0 else ""
    # shortest round-trip digits and decimal exponent
    if "e" in r:
        mant, exp = r.split("e")
        exp = int(exp)
    else:
        mant, exp = r, 0
    if "." in mant:
        ip, fp = mant.split(".")
    else:
        ip, fp = mant, ""
    digits = (ip + fp).lstrip("0")
    # value = 0.digits * 10^(kk) where kk = position of the decimal point
    kk = len(ip.lstrip("0")) + exp if ip.strip("0") else exp - (len(fp) - len(fp.lstrip("0")))
    digits = digits.rstrip("0") or "0"
    n = len(digits)
    k = kk - n
    # layout as the ryu pretty printer does
    if 0 <= k and kk <= 16:
        return sign + digits + "0" * k + ".0"
    if 0 < kk <= 16:
        return sign + digits[:kk] + "." + digits[kk:]
    if -5 < kk <= 0:
        return sign + "0." + "0" * (-kk) + digits
    e = kk - 1
    if n == 1:
        return sign + digits + "e" + str(e)
    return sign + digits[0] + "." + digits[1:] + "e" + str(e)


def json_str(b, text=True):
    out = ['"' if text else 'b"']
    if text:
        s = b.decode("utf-8", "surrogateescape")
        for ch in s:
            o = ord(ch)
            if ch == '"':
                out.append('\\"')
            elif ch == "\\":
                out.append("\\\\")
            elif ch == "\n":
                out.append("\\n")
            elif ch == "\t":
                out.append("\\t")
            elif ch == "\r":
                out.append("\\r")
            elif o == 8:
                out.append("\\b")
            elif o == 12:
                out.append("\\f")
            elif o < 0x20 or o == 0x7f:
                out.append("\\u%04x" % o)
            else:
                out.append(ch)
    else:
        for o in b:
            ch = chr(o)
            if ch == '"':
                out.append('\\"')
            elif ch == "\\":
                out.append("\\\\")
            elif ch == "\n":
                out.append("\\n")
            elif ch == "\t":
                out.append("\\t")
            elif ch == "\r":
                out.append("\\r")
            elif o == 8:
                out.append("\\b")
            elif o == 12:
                out.append("\\f")
            elif o < 0x20 or o >= 0x7f:
                out.append("\\x%02x" % o)
            else:
                out.append(ch)
    out.append('"')
    return "".join(out)


def tojson(v):
    if v is None:
        return "null"
    if v is True:
        return "true"
    if v is False:
        return "false"
    if V.is_int(v):
        return str(V.ival(v))
    if isinstance(v, float):
        return fmt_float(v)
    if isinstance(v, Dec):
        return v.text
    if isinstance(v, Str):
        return json_str(v.b, v.text)
    if isinstance(v, list):
        return "[" + ",".join(tojson(x) for x in v) + "]"
    if isinstance(v, Obj):
        return "{" + ",".join(tojson(k) + ":" + tojson(x) for k, x in v.items) + "}"
    raise TypeError(repr(v))


FORMATS = {
    "@text": lambda I, y: I.tostring(y),
    "@json": lambda I, y: Str(tojson(y).encode("utf-8", "surrogateescape"), True),
}


# ---------------------------------------------------------------------------------------
# core prelude: natives from the manual's stated definitions.
# signature: nat(I, args: [Arg], v, mode: 'run'|'paths'|'update', extra)
#   mode 'run'    -> iterator of values
#   mode 'paths'  -> iterator of (value, path); extra = current path
#   mode 'update' -> iterator of values; extra = u

NATIVES = {}


def native(name, arity):
    def deco(f):
        NATIVES[(name, arity)] = f
        return f
    return deco


def value_native(name, arity=0):
    """a filter that constructs a new value from its input and variable arguments
    (cartesian over argument outputs, first outermost); no paths, no updates"""
    def deco(f):
        def nat(I, args, v, mode, extra):
            if mode != "run":
                raise builtin_error()

            def rec(i, acc):
                if i == len(args):
                    yield from f(I, v, *acc)
                    return
                for y in I.run(args[i].term, args[i].env, v):
                    yield from rec(i + 1, acc + [y])
            return rec(0, [])
        NATIVES[(name, arity)] = nat
        return f
    return deco


def defined(name, arity, params, body_src):
    """a filter given by a definition displayed in the manual (parsed lazily by the driver)"""
    DEFINED[(name, arity)] = (params, body_src)


DEFINED = {}


def run_arg(I, a, v):
    return I.run(a.term, a.env, v)


def paths_arg(I, a, v, p):
    return I.paths(a.term, a.env, v, p)


def update_arg(I, a, v, u):
    return I.update(a.term, a.env, v, u)


@native("empty", 0)
def _empty(I, args, v, mode, extra):
    if mode == "update":
        # `empty |= f` is equivalent to `.`
        yield v
    return


@native("error", 0)
def _error0(I, args, v, mode, extra):
    raise user_error(v)
    yield


@native("error", 1)
def _error1(I, args, v, mode, extra):
    # error(f) throws an error for every output of f; error(empty) yields nothing
    for y in run_arg(I, args[0], v):
        raise user_error(y)
    if mode == "update":
        yield v
    return


@native("not", 0)
def _not(I, args, v, mode, extra):
    if mode != "run":
        raise builtin_error()
    yield not truthy(v)


@native("true", 0)
def _true(I, args, v, mode, extra):
    if mode != "run":
        raise builtin_error()
    yield True


@native("false", 0)
def _false(I, args, v, mode, extra):
    if mode != "run":
        raise builtin_error()
    yield False


@native("null", 0)
def _null(I, args, v, mode, extra):
    if mode != "run":
        raise builtin_error()
    yield None


def _select_update(I, args, v, u):
    """(if p then . else empty end) |= u, binding by binding over the outputs of p"""
    bs = Lazy(run_arg(I, args[0], v))

    def f(b, x):
        if truthy(b):
            return u(x)
        return iter((x,))
    return I.update_seq(bs, 0, v, f)


def _select_full(I, args, v, mode, extra):
    if mode == "update":
        return _select_update(I, args, v, extra)

    def gen():
        for b in run_arg(I, args[0], v):
            if truthy(b):
                yield v if mode == "run" else (v, extra)
    return gen()


NATIVES[("select", 1)] = _select_full


@native("recurse", 0)
def _recurse0(I, args, v, mode, extra):
    # recurse == recurse(.[]?); yields the same as `..`
    if mode == "run":
        return I.run_rec(("rec",), None, v)
    if mode == "paths":
        return I.paths_rec(v, extra)
    return I.update_rec(v, extra)


def _recurse_f(I, f_run, f_paths, v, mode, extra):
    """def recurse(f): ., (f | recurse(f))"""
    if mode == "run":
        def gen(x):
            I.step()
            yield x
            for y in f_run(x):
                yield from gen(y)
        return gen(v)
    if mode == "paths":
        def genp(x, p):
            I.step()
            yield (x, p)
            for (y, q) in f_paths(x, p):
                yield from genp(y, q)
        return genp(v, extra)
    # (., (f | r)) |= u  ==  (. |= u) | ((f | r) |= u): an update from the root downwards;
    # the manual's table gives this reading; it easily diverges, so bound it by fuel
    raise Unspecified("recurse(f) on the left of an update")


@native("recurse", 1)
def _recurse1(I, args, v, mode, extra):
    a = args[0]
    return _recurse_f(I, lambda x: run_arg(I, a, x), lambda x, p: paths_arg(I, a, x, p), v, mode, extra)


@native("recurse", 2)
def _recurse2(I, args, v, mode, extra):
    # recurse(f; p) == recurse(f | select(p))
    a, c = args

    def f_run(x):
        for y in run_arg(I, a, x):
            for b in run_arg(I, c, y):
                if truthy(b):
                    yield y

    def f_paths(x, p):
        for (y, q) in paths_arg(I, a, x, p):
            for b in run_arg(I, c, y):
                if truthy(b):
                    yield (y, q)
    return _recurse_f(I, f_run, f_paths, v, mode, extra)


@native("repeat", 1)
def _repeat(I, args, v, mode, extra):
    # runs f and yields its outputs over and over again (no caching)
    if mode == "update":
        raise Unspecified("repeat on the left of an update")
    while True:
        I.step()
        if mode == "run":
            yield from run_arg(I, args[0], v)
        else:
            yield from paths_arg(I, args[0], v, extra)


@native("while", 2)
def _while(I, args, v, mode, extra):
    # def while(p; f): def r: if p then ., (f | r) else empty end; r
    if mode != "run":
        raise Unspecified("while in path mode")
    c, f = args

    def gen(x):
        I.step()
        for b in run_arg(I, c, x):
            if truthy(b):
                yield x
                for y in run_arg(I, f, x):
                    yield from gen(y)
    return gen(v)


@native("until", 2)
def _until(I, args, v, mode, extra):
    # def until(p; f): def r: if p then . else f | r end; r
    if mode != "run":
        raise Unspecified("until in path mode")
    c, f = args

    def gen(x):
        I.step()
        for b in run_arg(I, c, x):
            if truthy(b):
                yield x
            else:
                for y in run_arg(I, f, x):
                    yield from gen(y)
    return gen(v)


def _range3(I, v, a, b, c):
    # $from | if $by > 0 then while(. < $to; . + $by) elif $by < 0 then while(. > $to; . + $by)
    #         else while(. != $to; . + $by) end
    guard_taint(a, b, c)
    if not (V.cmp_in_domain(c, 0) and V.cmp_in_domain(a, b)):
        raise Unspecified("range outside comparison domain")
    zc = V.cmp(c, 0)
    x = a
    while True:
        I.step()
        if not V.cmp_in_domain(x, b):
            raise Unspecified("range outside comparison domain")
        if zc > 0:
            go = V.cmp(x, b) < 0
        elif zc < 0:
            go = V.cmp(x, b) > 0
        else:
            go = not V.eq(x, b)
        if not go:
            return
        yield x
        x = math_op("+", x, c)


value_native("range", 3)(_range3)
value_native("range", 2)(lambda I, v, a, b: _range3(I, v, a, b, 1))
value_native("range", 1)(lambda I, v, b: _range3(I, v, 0, b, 1))


def _stream_native(name, arity):
    """first/last/limit/skip/nth: natively path-preserving; unsupported on the left of updates"""
    def deco(f):
        def nat(I, args, v, mode, extra):
            if mode == "update":
                raise builtin_error()
            return f(I, args, v, mode, extra)
        NATIVES[(name, arity)] = nat
        return f
    return deco


def _stream(I, a, v, mode, p):
    return run_arg(I, a, v) if mode == "run" else paths_arg(I, a, v, p)


@_stream_native("first", 1)
def _first1(I, args, v, mode, extra):
    for y in _stream(I, args[0], v, mode, extra):
        yield y
        return


@_stream_native("last", 1)
def _last1(I, args, v, mode, extra):
    last = MISSING
    for y in _stream(I, args[0], v, mode, extra):
        last = y
    if last is not MISSING:
        yield last


def _count(n):
    guard_taint(n)
    if not V.is_int(n):
        raise Unspecified("non-integer count")
    return V.ival(n)


@_stream_native("limit", 2)
def _limit(I, args, v, mode, extra):
    for n in run_arg(I, args[0], v):
        n = _count(n)
        if n <= 0:
            continue
        i = 0
        for y in _stream(I, args[1], v, mode, extra):
            yield y
            i += 1
            if i >= n:
                break


@_stream_native("skip", 2)
def _skip(I, args, v, mode, extra):
    for n in run_arg(I, args[0], v):
        n = _count(n)
        i = 0
        for y in _stream(I, args[1], v, mode, extra):
            if i >= n:
                yield y
            i += 1


@_stream_native("nth", 2)
def _nth2(I, args, v, mode, extra):
    # nth($i; f) == first(skip($i; f)); negative $i: skip yields everything -> first output
    for n in run_arg(I, args[0], v):
        n = _count(n)
        if n < 0:
            raise Unspecified("nth with negative index")
        i = 0
        for y in _stream(I, args[1], v, mode, extra):
            if i >= n:
                yield y
                break
            i += 1


def _as_path_shorthand(term_builder):
    def nat(I, args, v, mode, extra):
        t = term_builder(args)
        env = args[0].env if args else {}
        if mode == "run":
            return I.run(t, env, v)
        if mode == "paths":
            return I.paths(t, env, v, extra)
        return I.update(t, env, v, extra)
    return nat


# first == .[0], last == .[-1], nth($i) == .[$i]
NATIVES[("first", 0)] = _as_path_shorthand(lambda a: ("path", ("id",), ((("index", ("num", "0")), False),)))
NATIVES[("last", 0)] = _as_path_shorthand(lambda a: ("path", ("id",), ((("index", ("neg", ("num", "1"))), False),)))
NATIVES[("nth", 1)] = _as_path_shorthand(lambda a: ("path", ("id",), ((("index", a[0].term), False),)))


@native("isempty", 1)
def _isempty(I, args, v, mode, extra):
    if mode != "run":
        raise builtin_error()
    for _ in run_arg(I, args[0], v):
        yield False
        return
    yield True


def _anyall(is_any):
    def nat(I, args, v, mode, extra):
        if mode != "run":
            raise builtin_error()
        if len(args) == 2:
            gen, cond = args

            def stream():
                for x in run_arg(I, gen, v):
                    yield from run_arg(I, cond, x)
        elif len(args) == 1:
            cond = args[0]

            def stream():
                for x in viterate(v):
                    yield from run_arg(I, cond, x)
        else:
            def stream():
                yield from viterate(v)
        for b in stream():
            if truthy(b) == is_any:
                yield is_any
                return
        yield not is_any
    return nat


for _n in (0, 1, 2):
    NATIVES[("any", _n)] = _anyall(True)
    NATIVES[("all", _n)] = _anyall(False)


@native("add", 1)
def _add1(I, args, v, mode, extra):
    # reduce f as $x (null; . + $x)
    if mode != "run":
        raise builtin_error()
    acc = None
    for x in run_arg(I, args[0], v):
        acc = I.math("+", acc, x)
    yield acc


@native("add", 0)
def _add0(I, args, v, mode, extra):
    if mode != "run":
        raise builtin_error()
    acc = None
    for x in viterate(v):
        acc = I.math("+", acc, x)
    yield acc


@native("path", 1)
def _path(I, args, v, mode, extra):
    if mode != "run":
        raise builtin_error()
    for (_y, p) in paths_arg(I, args[0], v, ()):
        yield list(p)


@native("path_value", 1)
def _path_value(I, args, v, mode, extra):
    if mode != "run":
        raise builtin_error()
    for (y, p) in paths_arg(I, args[0], v, ()):
        yield [list(p), y]


@native("paths", 0)
def _paths0(I, args, v, mode, extra):
    # skip(1; path(..))
    if mode != "run":
        raise builtin_error()
    first = True
    for (_y, p) in I.paths_rec(v, ()):
        if first:
            first = False
            continue
        yield list(p)


@native("paths", 1)
def _paths1(I, args, v, mode, extra):
    # paths as $path | if getpath($path) | p then $path else empty end
    if mode != "run":
        raise builtin_error()
    first = True
    for (y, p) in I.paths_rec(v, ()):
        if first:
            first = False
            continue
        for b in run_arg(I, args[0], y):
            if truthy(b):
                yield list(p)


@native("getpath", 1)
def _getpath(I, args, v, mode, extra):
    # the inverse of path(f): walks .[p1] | .[p2] | ...; a variable argument: one run per path
    def chain_of(path):
        guard_taint(path)
        if not isinstance(path, list):
            raise builtin_error()
        return [("index", x, False) for x in path]
    if mode == "update":
        chains = Lazy(chain_of(p) for p in run_arg(I, args[0], v))
        return I.update_seq(chains, 0, v, lambda chain, x: I.update_chain(chain, 0, x, extra))

    def gen():
        for path in run_arg(I, args[0], v):
            chain = chain_of(path)
            if mode == "run":
                yield from I.apply_chain(chain, v)
            else:
                yield from I.paths_chain(chain, v, extra)
    return gen()


@native("setpath", 2)
def _setpath(I, args, v, mode, extra):
    # getpath($path) = $v
    if mode != "run":
        raise builtin_error()
    for path in run_arg(I, args[0], v):
        for x in run_arg(I, args[1], v):
            guard_taint(path)
            if not isinstance(path, list):
                raise builtin_error()
            chain = [("index", e, False) for e in path]
            yield from I.update_chain(chain, 0, v, lambda _old, x=x: iter((x,)))


@native("delpaths", 1)
def _delpaths(I, args, v, mode, extra):
    # deletes all corresponding values in the order given, relative to the current value
    if mode != "run":
        raise builtin_error()
    for paths in run_arg(I, args[0], v):
        guard_taint(paths)
        if not isinstance(paths, list):
            raise builtin_error()
        cur = [v]
        for path in paths:
            if not isinstance(path, list):
                raise builtin_error()
            chain = [("index", e, False) for e in path]
            nxt = []
            for c in cur:
                nxt.extend(I.update_chain(chain, 0, c, lambda _old: iter(())))
            cur = nxt
        yield from cur


@native("del", 1)
def _del(I, args, v, mode, extra):
    # f |= empty
    if mode != "run":
        raise builtin_error()
    return update_arg(I, args[0], v, lambda _x: iter(()))


@native("map", 1)
def _map(I, args, v, mode, extra):
    # [.[] | f]
    if mode != "run":
        raise builtin_error()
    out = []
    for x in viterate(v):
        out.extend(run_arg(I, args[0], x))
    yield out


@native("map_values", 1)
def _map_values(I, args, v, mode, extra):
    # .[] |= f
    if mode != "run":
        raise builtin_error()
    return iter_upd(v, lambda x: run_arg(I, args[0], x))


@native("walk", 1)
def _walk(I, args, v, mode, extra):
    # .. |= f
    if mode != "run":
        raise builtin_error()
    return I.update_rec(v, lambda x: run_arg(I, args[0], x))


@value_native("length")
def _length(I, v):
    guard_taint(v) if v is not TAINT else None
    if v is TAINT:
        raise Cut()
    try:
        yield V.length(v)
    except JqError:
        raise builtin_error()


@value_native("keys_unsorted")
def _keys_unsorted(I, v):
    guard_taint(v)
    yield [k for k, _ in vkey_values(v)]


@value_native("keys")
def _keys(I, v):
    guard_taint(v)
    ks = [k for k, _ in vkey_values(v)]
    for a in ks:
        for b in ks:
            if not V.cmp_in_domain(a, b):
                raise Unspecified("keys outside comparison domain")
    yield V.sort_values(ks)


@value_native("to_entries")
def _to_entries(I, v):
    guard_taint(v)
    yield [Obj([(Str(b"key", True), k), (Str(b"value", True), x)]) for k, x in vkey_values(v)]


@value_native("from_entries")
def _from_entries(I, v):
    guard_taint(v)
    o = Obj([])
    for e in viterate(v):
        k = vindex(e, Str(b"key", True))
        x = vindex(e, Str(b"value", True))
        if V.has_nan(k):
            raise Unspecified("NaN as key")
        o = V.obj_set(o, k, x)
    yield o


@native("with_entries", 1)
def _with_entries(I, args, v, mode, extra):
    # to_entries | map(f) | from_entries
    if mode != "run":
        raise builtin_error()
    ents = next(_to_entries(I, v))
    out = []
    for e in ents:
        out.extend(run_arg(I, args[0], e))
    return _from_entries(I, out)


@value_native("tostring")
def _tostring(I, v):
    yield I.tostring(v)


@value_native("tojson")
def _tojson(I, v):
    guard_taint(v)
    yield Str(tojson(v).encode("utf-8", "surrogateescape"), True)


@value_native("type")
def _type(I, v):
    if v is TAINT:
        yield Str(b"string", True)
    else:
        yield Str(V.kind(v).encode(), True)


@value_native("has", 1)
def _has(I, v, k):
    guard_taint(v, k)
    try:
        yield V.has(v, k)
    except JqError:
        raise builtin_error()


@value_native("join", 1)
def _join(I, v, s):
    # if length == 0 then "" else reduce .[1:][] as $x ("\(.[0])"; . + $s + "\($x)") end
    guard_taint(v, s)
    xs = viterate(v)
    if not xs:
        yield Str(b"", True)
        return
    acc = I.tostring(xs[0])
    for x in xs[1:]:
        acc = I.math("+", I.math("+", acc, s), I.tostring(x))
    yield acc


for _name in ("isnull", "isboolean", "isnumber", "isstring", "isarray", "isobject"):
    def _mk(kindname):
        def f(I, v):
            yield (V.kind(v) if v is not TAINT else "string") == kindname
        return f
    value_native(_name)(_mk({"isnull": "null", "isboolean": "boolean", "isnumber": "number", "isstring": "string",
                             "isarray": "array", "isobject": "object"}[_name]))


@value_native("reverse")
def _reverse(I, v):
    guard_taint(v)
    if isinstance(v, list):
        yield list(reversed(v))
    else:
        raise Unspecified("reverse of non-array")


@value_native("halt", 0)
def _halt0(I, v):
    raise HaltExc(0)
    yield


@value_native("halt", 1)
def _halt1(I, v, c):
    guard_taint(c)
    if not V.is_int(c):
        raise Unspecified("halt with non-integer")
    raise HaltExc(V.ival(c))
    yield


# probes (mirrors of jaqmon's probe natives)
@native("mark", 1)
def _mark(I, args, v, mode, extra):
    for ident in run_arg(I, args[0], v):
        I.fx.append((ident, I.delivered))
        if mode == "run":
            yield v
        elif mode == "paths":
            yield (v, extra)
        else:
            yield from extra(v)
            return


@native("bomb", 1)
def _bomb(I, args, v, mode, extra):
    if mode != "run":
        raise builtin_error()
    for ident in run_arg(I, args[0], v):
        I.fx.append((ident, I.delivered))
        yield v


@native("tick", 0)
def _tick(I, args, v, mode, extra):
    I.ticks += 1
    if mode == "run":
        yield v
    elif mode == "paths":
        yield (v, extra)
    else:
        yield from extra(v)


@native("input", 0)
def _input(I, args, v, mode, extra):
    if mode != "run":
        raise builtin_error()
    for x in I.inputs:
        I.pulled += 1
        I.step()
        yield x
        return


@native("inputs", 0)
def _inputs(I, args, v, mode, extra):
    if mode != "run":
        raise builtin_error()
    for x in I.inputs:
        I.pulled += 1
        I.step()            # an endless input stream must exhaust the fuel, not hang the model
        yield x
